------------------------------ MODULE PbnTrace ------------------------------
(***************************************************************************)
(* Validates the real PbnParser and PbnWriter against Pbn.tla and          *)
(* Notation.tla (C17 PBN half, C18).  Every event is its own trace.        *)
(*   parse    : lines (abstract lines of the file that was rendered and    *)
(*              parsed), out (games returned by parse_all, each a list of  *)
(*              <<name, value>>)                                           *)
(*   settings : per game the texts of the Deal, Dealer, Vulnerable, Board  *)
(*              tags and the BoardSetting returned (deal, dealer, vul, id) *)
(*   write    : the arguments of write_board_result (integer encoding,     *)
(*              names as strings) and the lines written (text, len)        *)
(*   readback : the values written for n results and the games read back   *)
(***************************************************************************)
EXTENDS TraceBase, Bridge, Integers, Notation

SkipEmptyGames == TRUE
GameSeparator == TRUE
MaxGames == 0
Blanks0 == {0}
BlanksMid == {1}
BlanksEnd == {0}
Headers == {0}
Orders == 1
Col0Comments == FALSE
CommentStyles == {"none"}
VARIABLES file, expect, meta
P == INSTANCE Pbn

VARIABLES i, nrej
tvars == <<file, expect, meta, i, nrej>>

SetOf(q) == SeqRange(q)
DealOf(q) == [s \in Seats |-> SetOf(q[s + 1])]
PairSet(g) == {<<p[1], p[2]>> : p \in SetOf(g)}
Pad2(n) == IF n < 10 THEN "0" \o ToString(n) ELSE ToString(n)
Pad4(n) == IF n < 10 THEN "000" \o ToString(n) ELSE IF n < 100 THEN "00" \o ToString(n)
           ELSE IF n < 1000 THEN "0" \o ToString(n) ELSE ToString(n)
DblOf(x, xx) == IF xx THEN 2 ELSE IF x THEN 1 ELSE 0
PassedOut(b) == b = NoCall \/ b = PASS

\* the texts of the 15 mandatory tags for a written result
Vals(r) ==
  [t \in {P!Mandatory[k] : k \in 1..15} |->
     CASE t = "Event" -> r.event [] t = "Site" -> r.site
       [] t = "Date" -> Pad4(r.date[1]) \o "." \o Pad2(r.date[2]) \o "." \o Pad2(r.date[3])
       [] t = "Board" -> ToString(r.board)
       [] t = "West" -> r.west [] t = "North" -> r.north
       [] t = "East" -> r.east [] t = "South" -> r.south
       [] t = "Dealer" -> SeatShort[r.dealer + 1]
       [] t = "Vulnerable" -> VulPbn[r.contract.vul + 1]
       [] t = "Deal" -> PbnDeal(DealOf(r.deal), r.dealer)
       [] t = "Scoring" -> r.scoring
       [] t = "Declarer" -> IF PassedOut(r.contract.bid) THEN ""
                            ELSE SeatShort[r.contract.decl + 1]
       [] t = "Contract" -> IF PassedOut(r.contract.bid) THEN "Pass"
                            ELSE ContractStr(r.contract.bid, DblOf(r.contract.x, r.contract.xx))
       [] t = "Result" -> IF PassedOut(r.contract.bid) THEN "" ELSE ToString(r.tricks)]
TagLine(n, v) == "[" \o n \o " \"" \o v \o "\"]\n"

Clauses(e) ==
  CASE e.ev = "parse" ->
         LET g == P!ParseFile(e.lines)
         IN << <<"count", Len(e.out) = Len(g)>>,
               <<"games", Len(e.out) = Len(g) =>
                            \A k \in 1..Len(g) : PairSet(e.out[k]) = g[k]>> >>
    [] e.ev = "settings" ->
         << <<"count", Len(e.out) = Len(e.tags)>>,
            <<"boards", Len(e.out) = Len(e.tags) =>
                 \A k \in 1..Len(e.tags) :
                    LET t == e.tags[k]  o == e.out[k] IN
                    /\ t.deal = PbnDeal(DealOf(o.deal), t.first)
                    /\ t.dealer = SeatShort[o.dealer + 1]
                    /\ t.vul \in VulSpellings(o.vul)
                    /\ t.board = o.id /\ o.types_ok>> >>
    [] e.ev = "write" ->
         LET v == Vals(e.rec) IN
         << <<"lines", Len(e.lines) = 16>>,
            <<"tags", Len(e.lines) = 16 =>
                        \A k \in 1..15 : e.lines[k].text = TagLine(P!Mandatory[k], v[P!Mandatory[k]])>>,
            <<"separator", Len(e.lines) = 16 => e.lines[16].text = "\n">>,
            <<"line-length", \A k \in 1..Len(e.lines) : e.lines[k].len <= 255>> >>
    [] e.ev = "longline" ->
         << <<"line-length", \A k \in 1..Len(e.lines) : e.lines[k].len <= 255>> >>
    [] e.ev = "readback" ->
         LET want == [k \in 1..Len(e.written) |-> P!GameOf(Vals(e.written[k]))]
         IN << <<"count", Len(e.games) = Len(want)>>,
               <<"games", Len(e.games) = Len(want) =>
                            \A k \in 1..Len(want) : PairSet(e.games[k]) = want[k]>>,
               <<"MODEL-LAW", P!ParseFile(P!WriteAll([k \in 1..Len(e.written) |-> Vals(e.written[k])]))
                                = want>> >>
    [] OTHER -> << <<"unknown-event", FALSE>> >>

TInit == /\ i = 1 /\ nrej = 0 /\ file = <<>> /\ expect = <<>> /\ meta = 0

Consume ==
  /\ i <= NTrace
  /\ i' = i + 1
  /\ UNCHANGED <<file, expect, meta>>
  /\ LET e == Trace[i]
         c == IF e.raised THEN "raised" ELSE AllFails(Clauses(e))
     IN IF c = "" THEN nrej' = nrej
        ELSE /\ Reject(e.tid, i, e.ev \o ":fail=" \o c) /\ nrej' = nrej + 1

Done ==
  /\ i = NTrace + 1
  /\ Finish(NTrace, nrej)
  /\ i' = i + 1
  /\ UNCHANGED <<file, expect, meta, nrej>>

TNext == Consume \/ Done
TSpec == TInit /\ [][TNext]_tvars
=============================================================================
