---------------------------- MODULE PyThreading ----------------------------
(***************************************************************************)
(* The CPython synchronisation primitives as bridge_env uses them, as pure *)
(* transition functions, plus two small systems that TLC explores:         *)
(*   - a reusable Barrier crossed G times by N threads (safety: nobody     *)
(*     leaves generation g+1 before everybody has left generation g;       *)
(*     no deadlock; termination), and                                      *)
(*   - the Event hand-off "set, then clear" that the pinned server built   *)
(*     its barrier from (a waiter already inside wait() IS released by     *)
(*     set() even if clear() follows; a thread that calls wait() after the *)
(*     clear() is not).                                                    *)
(* These are the semantics implemented by the controlled primitives of     *)
(* harness/baton.py (which a self-check compares with the real CPython     *)
(* objects) and inlined in Table.tla.                                      *)
(*                                                                         *)
(* threading.Event   (Lib/threading.py): set(): flag := True; notify_all   *)
(*   wait(): if not flag: cond.wait()  -> returns once notified, whatever  *)
(*   the flag is by then.                                                  *)
(* threading.Barrier: state 0 filling / 1 draining; _enter blocks while    *)
(*   draining; the last arrival releases; every leaver decrements count,   *)
(*   the last leaver resets the state to filling.                          *)
(* queue.Queue: FIFO; get() blocks while empty; put() never blocks         *)
(*   (unbounded).                                                          *)
(***************************************************************************)
EXTENDS Naturals, Sequences, FiniteSets, TLC

CONSTANTS N,     \* threads
          G      \* barrier generations

(* ------------------------------- Event --------------------------------- *)
EvInit == [flag |-> FALSE, waiters |-> {}, notified |-> {}]
EvSet(e) == [flag |-> TRUE, waiters |-> {}, notified |-> e.notified \cup e.waiters]
EvClear(e) == [e EXCEPT !.flag = FALSE]
\* wait(), first half: returns at once if the flag is up, else registers
EvEnterPasses(e) == e.flag
EvEnter(e, t) == IF e.flag THEN e ELSE [e EXCEPT !.waiters = @ \cup {t}]
\* wait(), second half: enabled once notified
EvCanWake(e, t) == t \in e.notified
EvWake(e, t) == [e EXCEPT !.notified = @ \ {t}]

(* ------------------------------ Barrier -------------------------------- *)
BarInit == [count |-> 0, state |-> 0]
BarCanEnter(b) == b.state = 0
BarEnterReleases(b, parties) == b.count + 1 = parties
BarEnter(b, parties) == [count |-> b.count + 1,
                         state |-> IF b.count + 1 = parties THEN 1 ELSE b.state]
BarCanLeave(b) == b.state = 1
BarLeave(b) == [count |-> b.count - 1, state |-> IF b.count = 1 THEN 0 ELSE b.state]

(* ------------------------------- Queue --------------------------------- *)
QPut(q, x) == Append(q, x)
QCanGet(q) == q # <<>>
QGet(q) == [item |-> Head(q), rest |-> Tail(q)]

(* ------------- system 1: N threads cross a barrier G times ------------- *)
VARIABLES bar, pcs, gen, ev, scen, pm, pa, pb
vars == <<bar, pcs, gen, ev, scen, pm, pa, pb>>
Threads == 1..N

Init == /\ bar = BarInit
        /\ pcs = [t \in Threads |-> "enter"]
        /\ gen = [t \in Threads |-> 0]          \* generations completed
        /\ ev = EvInit
        /\ scen = "barrier"
        /\ pm = "na" /\ pa = "na" /\ pb = "na"

Enter(t) == /\ pcs[t] = "enter" /\ gen[t] < G /\ BarCanEnter(bar)
            /\ bar' = BarEnter(bar, N)
            /\ pcs' = [pcs EXCEPT ![t] = IF BarEnterReleases(bar, N) THEN "leave" ELSE "wait"]
            /\ UNCHANGED <<gen, ev, scen, pm, pa, pb>>
Wait(t) == /\ pcs[t] = "wait" /\ BarCanLeave(bar)
           /\ pcs' = [pcs EXCEPT ![t] = "leave"]
           /\ UNCHANGED <<bar, gen, ev, scen, pm, pa, pb>>
Leave(t) == /\ pcs[t] = "leave"
            /\ bar' = BarLeave(bar)
            /\ gen' = [gen EXCEPT ![t] = @ + 1]
            /\ pcs' = [pcs EXCEPT ![t] = "enter"]
            /\ UNCHANGED <<ev, scen, pm, pa, pb>>
Next == \E t \in Threads : Enter(t) \/ Wait(t) \/ Leave(t)
Spec == Init /\ [][Next]_vars /\ \A t \in Threads : WF_vars(Enter(t) \/ Wait(t) \/ Leave(t))

\* nobody is more than one generation ahead of anybody
BarrierSafety == \A a, b \in Threads : gen[a] <= gen[b] + 1
\* a thread that has left generation g+1 implies all have ENTERED it
BarrierSync == \A a, b \in Threads :
                 gen[a] = gen[b] + 1 => pcs[b] \in {"wait", "leave"}
BarrierShape == bar.count \in 0..N /\ bar.state \in {0, 1}
AllCrossed == \A t \in Threads : gen[t] = G
NoBarrierDeadlock == AllCrossed \/ ENABLED Next
BarrierTermination == <>AllCrossed

(* ------ system 2: the set-then-clear hand-off (why F1 is a defect) ------ *)
\* main: set; clear.   thread a: already inside wait().   thread b: calls
\* wait() at an arbitrary moment.
evars == vars
Rest == UNCHANGED <<bar, pcs, gen, scen>>
EInit == /\ ev = [EvInit EXCEPT !.waiters = {"a"}] /\ pm = "set" /\ pa = "inside" /\ pb = "before"
         /\ bar = BarInit /\ pcs = [t \in Threads |-> "enter"] /\ gen = [t \in Threads |-> 0]
         /\ scen = "event"
MSet == pm = "set" /\ ev' = EvSet(ev) /\ pm' = "clear" /\ UNCHANGED <<pa, pb>> /\ Rest
MClear == pm = "clear" /\ ev' = EvClear(ev) /\ pm' = "done" /\ UNCHANGED <<pa, pb>> /\ Rest
AWake == pa = "inside" /\ EvCanWake(ev, "a") /\ ev' = EvWake(ev, "a") /\ pa' = "passed"
         /\ UNCHANGED <<pm, pb>> /\ Rest
BEnter == pb = "before" /\ ev' = EvEnter(ev, "b")
          /\ pb' = (IF EvEnterPasses(ev) THEN "passed" ELSE "inside") /\ UNCHANGED <<pm, pa>> /\ Rest
BWake == pb = "inside" /\ EvCanWake(ev, "b") /\ ev' = EvWake(ev, "b") /\ pb' = "passed"
         /\ UNCHANGED <<pm, pa>> /\ Rest
ENext == MSet \/ MClear \/ AWake \/ BEnter \/ BWake
ESpec == EInit /\ [][ENext]_evars /\ WF_evars(ENext)
\* the waiter that was inside wait() when set() happened always gets through
InsideWaiterPasses == <>(pa = "passed")
\* ... but a thread arriving after the clear() waits for ever: the property
\* below is VIOLATED (TLC shows the lost wake-up); regression configuration
LateWaiterPasses == <>(pb = "passed")
=============================================================================
