---------------------------- MODULE FramingTrace ----------------------------
(***************************************************************************)
(* Validates runs of the real MessageInterface.receive_message /           *)
(* send_message on a scripted socket against Framing!ReadAll (C19).        *)
(* events                                                                  *)
(*   frame : chunks (sequence of byte sequences that arrive), closed       *)
(*           -> got (messages returned, as byte sequences), final          *)
(*           ("error" | "blocked" | "spin"), after_eof (recv calls made    *)
(*           after recv first returned b'')                                *)
(*   send  : text (bytes of an ASCII message) -> bytes written             *)
(***************************************************************************)
EXTENDS TraceBase, Naturals

Payload == {}
MaxMsgs == 0
MaxLen == 0
EofRaises == TRUE
ReadImpl == "byte"
VARIABLES msgs, scenario, closed, chunks, buf, afterCR, got, status, spin
F == INSTANCE Framing

VARIABLES i, nrej
tvars == <<msgs, scenario, closed, chunks, buf, afterCR, got, status, spin, i, nrej>>

RECURSIVE Concat(_)
Concat(cs) == IF cs = <<>> THEN <<>> ELSE Head(cs) \o Concat(Tail(cs))

TInit == /\ i = 1 /\ nrej = 0
         /\ msgs = <<>> /\ scenario = <<>> /\ closed = FALSE /\ chunks = <<>>
         /\ buf = <<>> /\ afterCR = FALSE /\ got = <<>> /\ status = "x" /\ spin = FALSE

Clauses(e) ==
  IF e.ev = "frame" THEN
     LET r == F!ReadAll(Concat(e.chunks), e.closed)
     IN << <<"messages", e.got = r.got>>,
           <<"final", e.final = r.final>>,
           <<"no-spin", e.after_eof <= 1>> >>
  ELSE << <<"bytes", e.bytes = e.text \o <<13, 10>> >> >>

Consume ==
  /\ i <= NTrace
  /\ i' = i + 1
  /\ UNCHANGED <<msgs, scenario, closed, chunks, buf, afterCR, got, status, spin>>
  /\ LET e == Trace[i]
         c == AllFails(Clauses(e))
     IN IF c = "" THEN nrej' = nrej
        ELSE /\ Reject(e.tid, i, e.ev \o ":fail=" \o c) /\ nrej' = nrej + 1

Done ==
  /\ i = NTrace + 1
  /\ Finish(NTrace, nrej)
  /\ i' = i + 1
  /\ UNCHANGED <<msgs, scenario, closed, chunks, buf, afterCR, got, status, spin, nrej>>

TNext == Consume \/ Done
TSpec == TInit /\ [][TNext]_tvars
=============================================================================
