------------------------------- MODULE Table -------------------------------
(***************************************************************************)
(* The table manager of bridge_env (network_bridge/server.py) as a         *)
(* concurrent program: the main thread (Server.run: accept loop, seating   *)
(* barrier, per board deal / auction relay / play relay / score / log,     *)
(* join) and one PlayerThread per connection request (_connect, _deal,     *)
(* _bidding_phase, _playing_phase, status), written in PlusCal with ONE    *)
(* LABEL PER SCHEDULING POINT of the code (a blocking or racy operation    *)
(* followed by the puts / sends / file writes up to the next one).         *)
(* Protocol-conforming clients are folded into the seat threads: where the *)
(* code reads a line from its client the model takes the line the protocol *)
(* prescribes (a ready-line, or the seat's next decision from Script).     *)
(*                                                                         *)
(* CPython primitives as used (PyThreading semantics, inlined):            *)
(*   Event   flag + waiters; set() releases every thread already inside    *)
(*           wait() even if clear() follows                                *)
(*   Barrier count + filling/draining state, reusable                      *)
(*   Queue   FIFO, get blocks while empty                                  *)
(*                                                                         *)
(* Constants keep the historical behaviour available as regression         *)
(* configurations: SyncImpl = "flags" is the hand-rolled barrier of the    *)
(* pinned tree (per-seat arrival events + one shared release event that    *)
(* main clears afterwards; finding F1), CloseOnAbort = FALSE the pinned    *)
(* abort path (finding F2).                                                *)
(*                                                                         *)
(* Properties: C09 (no deadlock, termination under weak fairness), C08 /   *)
(* C10 (log and per-connection streams equal the sequential meaning), C13  *)
(* (abort leaves a closed log of the finished boards), C20 (admission).    *)
(***************************************************************************)
EXTENDS Bridge, Integers, TLC

CONSTANTS Requests,      \* sequence of connection requests [seat, team, version]
          Boards,        \* sequence of boards [deal (function of seat), dealer, vul]
          Script,        \* per board [calls |-> seq of calls, cards |-> seq of cards]
          NTricksM,      \* tricks per played board in the model (13 in the code)
          SyncImpl,      \* "barrier" | "flags"
          CloseOnAbort,  \* TRUE: log closed on the exception path
          Fault,         \* [board, phase, index] of an offending message, or NoFault
          Interrupts,    \* TRUE: an operator interrupt may hit main inside a board
          JoinImpl       \* "wait": run() joins every player thread (the code);
                         \* "bounded": join(timeout=...) - may give up at once
                         \* (regression configuration, seeded changes C10-r3m2 / C11-r3m2)
          , EndAnnounce  \* "after-close": "End of session" is queued once the log is closed
                         \* (the code since the F2 repair); "before-close": queued first
                         \* (regression configuration, seeded change C08-r4m2)
          , RelayImpl    \* "main": the main thread passes every call on to the other three
                         \* seats (the code): every queue has ONE producer.  "seat": the
                         \* acting seat's thread puts its call into the other seats' queues
                         \* itself (regression configuration, seeded change C09-r8m1): those
                         \* queues then have two producers and the order of their items
                         \* depends on the schedule

NoFault == [board |-> 0, phase |-> "none", index |-> 0]
\* a free seat of the table (the code's None); "" is a team name like any other
Free == "<<free seat>>"

OfferBids == {}
Dealers == {}
VulSet == {}
Deals == {}
Trumps == {}
Decls == {}
Revokes == TRUE
\* only the pure step functions of the two modules are used
A == INSTANCE Auction WITH st <- 0, res <- 0
P == INSTANCE Play WITH m <- 0, obs <- 0, deal <- 0, ores <- 0

NReq == Len(Requests)
NB == Len(Boards)
Reqs == 1..NReq
Parties == 5

(* ------------------------- messages (abstract) ------------------------- *)
MName(s)      == [t |-> "name", seat |-> s]
MCall(s, c)   == [t |-> "call", seat |-> s, call |-> c]
MCard(s, c)   == [t |-> "card", seat |-> s, card |-> c]
MHdr(n)       == [t |-> "hdr", n |-> n]
MHand(s)      == [t |-> "hand", seat |-> s]
MDummy        == [t |-> "dummy"]
MLead(s)      == [t |-> "lead", seat |-> s]
MDummyLead    == [t |-> "dummylead"]
MSeated(s)    == [t |-> "seated", seat |-> s]
MTeams        == [t |-> "teams"]
MStart        == [t |-> "start"]
MEnd          == [t |-> "end"]
MErr(k)       == [t |-> "error", kind |-> k]
MNull         == [t |-> "NULL"]
MPassedOut    == [t |-> "PASSED_OUT"]
MIllegal      == [t |-> "ILLEGAL"]
MError        == [t |-> "ERROR"]
MNext         == [t |-> "NEXT"]
MBad          == [t |-> "bad"]

(* ------------------- sequential meaning (cf. TableObs) ----------------- *)
RECURSIVE AucAfter(_, _, _)
AucAfter(s0, calls, k) == IF k = 0 THEN s0 ELSE A!Step(AucAfter(s0, calls, k - 1), calls[k]).st
FinalAuc(b) == AucAfter(A!InitAuction(Boards[b].dealer, Boards[b].vul), Script[b].calls,
                        Len(Script[b].calls))
ContractOfB(b) == A!Contract(FinalAuc(b))
PassedOutB(b) == ContractOfB(b).bid = NoCall
CallerOf(b, k) == SeatAfter(Boards[b].dealer, k - 1)
InitPlayB(b) == LET c == ContractOfB(b)
                IN P!InitPlay("hands", NoSeat, Boards[b].deal, Strain(c.bid), c.decl)
RECURSIVE PlayAfterB(_, _)
PlayAfterB(b, k) ==
  IF k = 0 THEN InitPlayB(b)
  ELSE LET p == PlayAfterB(b, k - 1) IN P!PStep(p, p.active, Script[b].cards[k]).st
NCards == 4 * NTricksM
\* who puts card k of board b on the wire
PlayedBy(b, k) == LET p == PlayAfterB(b, k - 1)
                  IN IF p.active = p.dummy THEN p.decl ELSE p.active

BoardStream(s, b) ==
  LET auction == SelectSeq([k \in 1..Len(Script[b].calls) |->
                              MCall(CallerOf(b, k), Script[b].calls[k])],
                           LAMBDA x : x.seat # s)
      RECURSIVE PlayPart(_)
      PlayPart(k) ==
        IF k > NCards THEN <<>>
        ELSE LET p == PlayAfterB(b, k - 1)
                 mine == PlayedBy(b, k) = s
                 prompt == IF Len(p.trick) = 0 /\ mine
                           THEN <<IF p.active = p.dummy THEN MDummyLead ELSE MLead(s)>>
                           ELSE <<>>
                 relay == IF mine THEN <<>> ELSE <<MCard(p.active, Script[b].cards[k])>>
                 dum == IF k = 1 /\ s # p.dummy THEN <<MDummy>> ELSE <<>>
             IN prompt \o relay \o dum \o PlayPart(k + 1)
  IN <<MStart, MHdr(b), MHand(s)>> \o auction
       \o (IF PassedOutB(b) THEN <<>> ELSE PlayPart(1))
RECURSIVE BoardsStream(_, _)
BoardsStream(s, b) == IF b > NB THEN <<>> ELSE BoardStream(s, b) \o BoardsStream(s, b + 1)

\* admission, sequentially (requests are processed one at a time)
VerdictKind(table, rq) ==
  IF rq.version # 18 THEN "version"
  ELSE IF table[rq.seat] # Free THEN "seated"
  ELSE IF table[Partner(rq.seat)] # Free /\ table[Partner(rq.seat)] # rq.team THEN "team"
  ELSE "ok"
RECURSIVE TableAfterK(_)
TableAfterK(k) ==
  IF k = 0 THEN [s \in Seats |-> Free]
  ELSE LET t == TableAfterK(k - 1)
       IN IF VerdictKind(t, Requests[k]) = "ok"
          THEN [t EXCEPT ![Requests[k].seat] = Requests[k].team] ELSE t
VerdictK(k) == VerdictKind(TableAfterK(k - 1), Requests[k])
\* requests processed by the accept loop: up to the one that fills the table
FullAt(k) == \A s \in Seats : TableAfterK(k)[s] # Free
Processed(k) == \A j \in 1..(k - 1) : ~FullAt(j)
ExpectedStream(k) ==
  IF ~Processed(k) THEN <<>>
  ELSE IF VerdictK(k) # "ok" THEN <<MErr(VerdictK(k))>>
  ELSE <<MSeated(Requests[k].seat), MTeams>> \o BoardsStream(Requests[k].seat, 1) \o <<MEnd>>

\* the log record of a board (abstract: the outcome the real record is built from)
BoardRecord(b) ==
  IF PassedOutB(b) THEN [board |-> b, contract |-> ContractOfB(b), taken |-> -1]
  ELSE [board |-> b, contract |-> ContractOfB(b),
        taken |-> PlayAfterB(b, NCards).taken[Side(ContractOfB(b).decl)]]

IsFault(b, phase, idx) == Fault.board = b /\ Fault.phase = phase /\ Fault.index = idx

(***************************************************************************
--algorithm Table {
  variables
    table = [s \in Seats |-> Free],
    backlog = 1,                          \* next request to accept
    ev = [flag |-> FALSE, waiters |-> {}, notified |-> {}],       \* event_thread
    bar = [count |-> 0, state |-> 0],     \* threading.Barrier(5)
    evSync = [flag |-> FALSE, waiters |-> {}, notified |-> {}],   \* flags: shared release
    evSeat = [s \in Seats |-> FALSE],     \* flags: per-seat arrival
    toSeat = [s \in Seats |-> <<>>],      \* main -> seat thread
    fromSeat = [s \in Seats |-> <<>>],    \* seat thread -> main
    sent = [k \in Reqs |-> <<>>],         \* lines sent on connection k (history)
    closed = [k \in Reqs |-> FALSE],      \* connection closed by the server
    started = [k \in Reqs |-> FALSE],
    finished = [k \in Reqs |-> FALSE],
    threads = <<>>,                       \* threads main will join
    log = <<>>, logState = "none",        \* none | open | closed
    aborted = FALSE, interrupted = FALSE;

  define {
    AllSeated == \A s \in Seats : table[s] # Free
    Others(s) == Seats \ {s}
    PutAll(q, msg) == [s \in Seats |-> Append(q[s], msg)]
    PutTo(q, S, msg) == [s \in Seats |-> IF s \in S THEN Append(q[s], msg) ELSE q[s]]
  }

  \* threading.Barrier.wait / the hand-rolled flag barrier, seat side
  procedure SyncSeat(me)
  {
   ss_enter:
    if (SyncImpl = "barrier") {
      await bar.state = 0;
      if (bar.count + 1 = Parties) { bar := [count |-> bar.count + 1, state |-> 1]; goto ss_exit; }
      else { bar := [bar EXCEPT !.count = @ + 1]; };
    } else {
      evSeat[me] := TRUE;                        \* players_event[me].set()
      goto sf_wait;
    };
   ss_wait:
    await bar.state = 1;
   ss_exit:
    bar := [count |-> bar.count - 1, state |-> IF bar.count = 1 THEN 0 ELSE bar.state];
    return;
   sf_wait:                                      \* event_sync.wait(): enter
    if (evSync.flag) { goto sf_clear; }
    else { evSync := [evSync EXCEPT !.waiters = @ \cup {self}]; };
   sf_wake:
    await self \in evSync.notified;
    evSync := [evSync EXCEPT !.notified = @ \ {self}];
   sf_clear:
    evSeat[me] := FALSE;                         \* players_event[me].clear()
    return;
  }

  \* the same, main side
  procedure SyncMain()
    variable waitfor = 0;
  {
   sm_enter:
    if (SyncImpl = "barrier") {
      await bar.state = 0;
      if (bar.count + 1 = Parties) { bar := [count |-> bar.count + 1, state |-> 1]; goto sm_exit; }
      else { bar := [bar EXCEPT !.count = @ + 1]; };
    } else { goto sm_flags; };
   sm_wait:
    await bar.state = 1;
   sm_exit:
    bar := [count |-> bar.count - 1, state |-> IF bar.count = 1 THEN 0 ELSE bar.state];
    return;
   sm_flags:                                     \* for p, e in players_event: e.wait()
    while (waitfor < 4) {
      await evSeat[waitfor];
      waitfor := waitfor + 1;
    };
   sm_set:                                       \* event.set()
    evSync := [flag |-> TRUE, waiters |-> {}, notified |-> evSync.notified \cup evSync.waiters];
    return;
  }

  fair process (Main = 0)
    variables cur = 0, alive = FALSE, b = 1, auc = A!InitAuction(0, 0),
              ply = P!InitPlay("hands", NoSeat, [s \in Seats |-> {}], 0, 0), msg = MNull,
              j = 1, trick = 1,
              ci = 0, played = 0, nc = 0;
  {
   m_accept:
    while (~AllSeated) {
      await backlog <= NReq;                     \* accept()
      cur := backlog; backlog := backlog + 1;
   m_start:
      started[cur] := TRUE;                      \* thread.start()
   m_ev_wait:
      if (ev.flag) { goto m_sleep_adm; }         \* event_thread.wait()
      else { ev := [ev EXCEPT !.waiters = @ \cup {0}]; };
   m_ev_wake:
      await 0 \in ev.notified;
      ev := [ev EXCEPT !.notified = @ \ {0}];
   m_sleep_adm:
      skip;                                      \* time.sleep(1)
   m_alive:
      if (~finished[cur]) { threads := Append(threads, cur); };
   m_ev_clear:
      ev := [ev EXCEPT !.flag = FALSE];
    };
   m_b1:
    call SyncMain();                             \* all players are seated
   m_open:
    logState := "open";
   m_board:
    while (b <= NB) {
      if (SyncImpl = "flags") { evSync := [evSync EXCEPT !.flag = FALSE]; };   \* event_sync.clear()
   m_deal:
      toSeat := [s \in Seats |-> toSeat[s] \o <<MHdr(b), MHand(s)>>];
      call SyncMain();                           \* ready for deal
   m_deal2:
      if (SyncImpl = "flags") { evSync := [evSync EXCEPT !.flag = FALSE]; };
   m_b3:
      call SyncMain();                           \* ready for cards
   m_auction:
      auc := A!InitAuction(Boards[b].dealer, Boards[b].vul);
      nc := 0;
   m_turn:
      while (~A!Done(auc)) {
        toSeat := PutAll(toSeat, MName(auc.active));
   m_call:
        await fromSeat[auc.active] # <<>> \/ interrupted;   \* queue.get() / Ctrl-C
        if (interrupted) { goto m_raise; }
        else {
          msg := Head(fromSeat[auc.active]);
          fromSeat[auc.active] := Tail(fromSeat[auc.active]);
          nc := nc + 1;
          if (msg.t = "bad") {
            \* illegal call: ILLEGAL to the caller, ERROR to the others, then raise;
            \* (an unparseable message raises without any put - same unwinding)
            toSeat := [s \in Seats |-> Append(toSeat[s],
                          IF s = auc.active THEN MIllegal ELSE MError)];
            goto m_raise;
          } else {
            if (RelayImpl = "main") { toSeat := PutTo(toSeat, Others(auc.active), msg); };
            auc := A!Step(auc, msg.call).st;
          };
        };
      };
   m_contract:
      \* NULL ends the auction loop of the seat threads, then PASSED_OUT / NULL,
      \* then (playing_phase) the declarer
      toSeat := [s \in Seats |-> toSeat[s] \o
                   (IF A!Contract(auc).bid = NoCall THEN <<MNull, MPassedOut>>
                    ELSE <<MNull, MNull, MName(A!Contract(auc).decl)>>)];
      if (A!Contract(auc).bid # NoCall) {
        ply := P!InitPlay("hands", NoSeat, Boards[b].deal, Strain(A!Contract(auc).bid),
                          A!Contract(auc).decl);
        trick := 1;
   m_trick:
        while (trick <= NTricksM) {
   m_sleep_trick:
          toSeat := PutAll(toSeat, MName(ply.leader));     \* after time.sleep(1)
          ci := 0;
   m_cards:
          while (ci < 4) {
            played := IF ply.active = ply.dummy THEN ply.decl ELSE ply.active;
   m_card:
            await fromSeat[played] # <<>> \/ interrupted;
            if (interrupted) { goto m_raise; }
            else {
              msg := Head(fromSeat[played]);
              fromSeat[played] := Tail(fromSeat[played]);
              if (msg.t = "bad") { goto m_raise; }
              else {
                \* relay to every seat but the connection that sent the card; after
                \* the opening lead dummy's hand to every seat but dummy
                toSeat := [s \in Seats |->
                             toSeat[s] \o (IF s # played THEN <<msg>> ELSE <<>>)
                               \o (IF trick = 1 /\ ci = 0 /\ s # ply.dummy THEN <<MDummy>>
                                   ELSE <<>>)];
                ply := P!PStep(ply, ply.active, msg.card).st;
                ci := ci + 1;
              };
            };
          };
          trick := trick + 1;
        };
      };
   m_write:
      log := Append(log, IF A!Contract(auc).bid = NoCall
                         THEN [board |-> b, contract |-> A!Contract(auc), taken |-> -1]
                         ELSE [board |-> b, contract |-> A!Contract(auc),
                               taken |-> ply.taken[Side(A!Contract(auc).decl)]]);
      if (b < NB) { toSeat := PutAll(toSeat, MNext); };
      b := b + 1;
    };
   m_close:
    if (EndAnnounce = "before-close") {
      toSeat := PutAll(toSeat, MEnd);
     m_close2:
      logState := "closed";
    } else {
      logState := "closed";
      toSeat := PutAll(toSeat, MEnd);
    };
   m_join:
    while (j <= Len(threads)) {
      await finished[threads[j]] \/ JoinImpl = "bounded";
      j := j + 1;
    };
    goto m_done;
   m_raise:                                      \* exception unwinds Server.run
    aborted := TRUE;
    if (CloseOnAbort) { logState := "closed"; };
   m_done:
    skip;
  }

  \* the operator: may interrupt the session once, at any moment
  process (Operator = -1)
  {
   op_interrupt:
    if (Interrupts) { either { interrupted := TRUE; } or { skip; } };
  }

  fair process (Req \in Reqs)
    variables seat = Requests[self].seat, rq = Requests[self], msg = MNull, bn = 1, act = 0,
              myturn = FALSE, ncalls = 0, declr = 0, tr = 1, i = 0, cardk = 0, isdummy = FALSE,
              fw = 1;
  {
   p_begin:
    await started[self];
   p_conn:                                       \* recv connection line; checks; answer
    if (rq.version # 18) {
      sent[self] := Append(sent[self], MErr("version")); closed[self] := TRUE; goto p_ev_set_rej;
    } else if (table[seat] # Free) {
      sent[self] := Append(sent[self], MErr("seated")); closed[self] := TRUE; goto p_ev_set_rej;
    } else if (table[Partner(seat)] # Free /\ table[Partner(seat)] # rq.team) {
      sent[self] := Append(sent[self], MErr("team")); closed[self] := TRUE; goto p_ev_set_rej;
    } else {
      table[seat] := rq.team;
      sent[self] := Append(sent[self], MSeated(seat));
    };
   p_ev_set:                                     \* (recv "ready for teams";) event_thread.set()
    ev := [flag |-> TRUE, waiters |-> {}, notified |-> ev.notified \cup ev.waiters];
   p_b1:
    call SyncSeat(seat);
   p_teams:
    sent[self] := Append(sent[self], MTeams);    \* (recv "ready to start")
   p_board:
    \* (recv "ready for deal"); a malformed line instead (growth beyond the
    \* listed properties, Fault.phase = "ready-deal", index = seat) is answered
    \* with an error, the connection is closed and the thread ends - nobody
    \* tells the main thread
    sent[self] := sent[self] \o (IF IsFault(bn, "ready-deal", seat)
                                  THEN <<MStart, MErr("unexpected")>> ELSE <<MStart>>);
    if (IsFault(bn, "ready-deal", seat)) { closed[self] := TRUE; goto p_end; }
    else { call SyncSeat(seat); };
   p_hdr:
    await toSeat[seat] # <<>>;
    sent[self] := sent[self] \o (IF IsFault(bn, "ready-cards", seat)
                                  THEN <<Head(toSeat[seat]), MErr("unexpected")>>
                                  ELSE <<Head(toSeat[seat])>>);
    toSeat[seat] := Tail(toSeat[seat]);          \* (recv "ready for cards")
    if (IsFault(bn, "ready-cards", seat)) { closed[self] := TRUE; goto p_end; }
    else { call SyncSeat(seat); };
   p_hand:
    await toSeat[seat] # <<>>;
    sent[self] := Append(sent[self], Head(toSeat[seat]));
    toSeat[seat] := Tail(toSeat[seat]);
    ncalls := 0;
   p_turn:                                       \* _bidding_phase
    await toSeat[seat] # <<>>;
    msg := Head(toSeat[seat]);
    toSeat[seat] := Tail(toSeat[seat]);
    if (msg.t = "NULL") { goto p_po; }
    else if (msg.t \in {"ILLEGAL", "ERROR"}) {
      sent[self] := Append(sent[self], MErr(msg.t)); closed[self] := TRUE; goto p_end;
    } else {
      ncalls := ncalls + 1;
      if (msg.seat = seat) {
        \* (recv own call from the client: the script, or the offending message)
        fromSeat[seat] := Append(fromSeat[seat],
                                 IF IsFault(bn, "auction", ncalls) THEN MBad
                                 ELSE MCall(seat, Script[bn].calls[ncalls]));
        if (RelayImpl = "seat") { fw := 1; goto p_fwd; } else { goto p_turn; };
      };
    };
   p_relay:                                      \* (recv "ready for X's bid")
    await toSeat[seat] # <<>>;
    sent[self] := Append(sent[self], Head(toSeat[seat]));
    toSeat[seat] := Tail(toSeat[seat]);
    goto p_turn;
   p_fwd:                                        \* (regression only: a second producer)
    while (fw <= 3) {
      toSeat[(seat + fw) % 4] := Append(toSeat[(seat + fw) % 4],
                                        IF IsFault(bn, "auction", ncalls) THEN MBad
                                        ELSE MCall(seat, Script[bn].calls[ncalls]));
      fw := fw + 1;
    };
    goto p_turn;
   p_po:
    await toSeat[seat] # <<>>;
    msg := Head(toSeat[seat]);
    toSeat[seat] := Tail(toSeat[seat]);
    if (msg.t = "PASSED_OUT") { goto p_status; };
   p_decl:                                       \* _playing_phase
    await toSeat[seat] # <<>>;
    declr := Head(toSeat[seat]).seat;
    toSeat[seat] := Tail(toSeat[seat]);
    tr := 1;
   p_leader:
    await toSeat[seat] # <<>>;
    act := Head(toSeat[seat]).seat;
    toSeat[seat] := Tail(toSeat[seat]);
    i := 0;
   p_cardloop:
    while (i < 4) {
      cardk := (tr - 1) * 4 + i + 1;
      if ((seat = act /\ seat # Partner(declr)) \/ (seat = declr /\ act = Partner(declr))) {
        if (i = 0) {
          sent[self] := Append(sent[self],
                               IF act = Partner(declr) THEN MDummyLead ELSE MLead(seat));
        };
        \* (recv card from the client)
        fromSeat[seat] := Append(fromSeat[seat],
                                 IF IsFault(bn, "play", cardk) THEN MBad
                                 ELSE MCard(act, Script[bn].cards[cardk]));
      } else {
   p_cardrelay:                                  \* (recv "ready for X's card to trick n")
        await toSeat[seat] # <<>>;
        sent[self] := Append(sent[self], Head(toSeat[seat]));
        toSeat[seat] := Tail(toSeat[seat]);
      };
   p_after:
      act := Left(act);
      if (tr = 1 /\ i = 0 /\ seat # Partner(declr)) {
   p_dummy:                                      \* (recv "ready for dummy")
        await toSeat[seat] # <<>>;
        sent[self] := Append(sent[self], Head(toSeat[seat]));
        toSeat[seat] := Tail(toSeat[seat]);
      };
   p_next:
      i := i + 1;
    };
    tr := tr + 1;
    if (tr <= NTricksM) { goto p_leader; };
   p_status:
    await toSeat[seat] # <<>>;
    msg := Head(toSeat[seat]);
    toSeat[seat] := Tail(toSeat[seat]);
    if (msg.t = "NEXT") { bn := bn + 1; goto p_board; }
    else { sent[self] := Append(sent[self], MEnd); goto p_end; };
   p_ev_set_rej:
    ev := [flag |-> TRUE, waiters |-> {}, notified |-> ev.notified \cup ev.waiters];
   p_end:
    finished[self] := TRUE;
  }
}
***************************************************************************)
\* BEGIN TRANSLATION
\* Process variable msg of process Main at line 243 col 78 changed to msg_
CONSTANT defaultInitValue
VARIABLES pc, table, backlog, ev, bar, evSync, evSeat, toSeat, fromSeat, sent, 
          closed, started, finished, threads, log, logState, aborted, 
          interrupted, stack

(* define statement *)
AllSeated == \A s \in Seats : table[s] # Free
Others(s) == Seats \ {s}
PutAll(q, msg) == [s \in Seats |-> Append(q[s], msg)]
PutTo(q, S, msg) == [s \in Seats |-> IF s \in S THEN Append(q[s], msg) ELSE q[s]]

VARIABLES me, waitfor, cur, alive, b, auc, ply, msg_, j, trick, ci, played, 
          nc, seat, rq, msg, bn, act, myturn, ncalls, declr, tr, i, cardk, 
          isdummy, fw

vars == << pc, table, backlog, ev, bar, evSync, evSeat, toSeat, fromSeat, 
           sent, closed, started, finished, threads, log, logState, aborted, 
           interrupted, stack, me, waitfor, cur, alive, b, auc, ply, msg_, j, 
           trick, ci, played, nc, seat, rq, msg, bn, act, myturn, ncalls, 
           declr, tr, i, cardk, isdummy, fw >>

ProcSet == {0} \cup {-1} \cup (Reqs)

Init == (* Global variables *)
        /\ table = [s \in Seats |-> Free]
        /\ backlog = 1
        /\ ev = [flag |-> FALSE, waiters |-> {}, notified |-> {}]
        /\ bar = [count |-> 0, state |-> 0]
        /\ evSync = [flag |-> FALSE, waiters |-> {}, notified |-> {}]
        /\ evSeat = [s \in Seats |-> FALSE]
        /\ toSeat = [s \in Seats |-> <<>>]
        /\ fromSeat = [s \in Seats |-> <<>>]
        /\ sent = [k \in Reqs |-> <<>>]
        /\ closed = [k \in Reqs |-> FALSE]
        /\ started = [k \in Reqs |-> FALSE]
        /\ finished = [k \in Reqs |-> FALSE]
        /\ threads = <<>>
        /\ log = <<>>
        /\ logState = "none"
        /\ aborted = FALSE
        /\ interrupted = FALSE
        (* Procedure SyncSeat *)
        /\ me = [ self \in ProcSet |-> defaultInitValue]
        (* Procedure SyncMain *)
        /\ waitfor = [ self \in ProcSet |-> 0]
        (* Process Main *)
        /\ cur = 0
        /\ alive = FALSE
        /\ b = 1
        /\ auc = A!InitAuction(0, 0)
        /\ ply = P!InitPlay("hands", NoSeat, [s \in Seats |-> {}], 0, 0)
        /\ msg_ = MNull
        /\ j = 1
        /\ trick = 1
        /\ ci = 0
        /\ played = 0
        /\ nc = 0
        (* Process Req *)
        /\ seat = [self \in Reqs |-> Requests[self].seat]
        /\ rq = [self \in Reqs |-> Requests[self]]
        /\ msg = [self \in Reqs |-> MNull]
        /\ bn = [self \in Reqs |-> 1]
        /\ act = [self \in Reqs |-> 0]
        /\ myturn = [self \in Reqs |-> FALSE]
        /\ ncalls = [self \in Reqs |-> 0]
        /\ declr = [self \in Reqs |-> 0]
        /\ tr = [self \in Reqs |-> 1]
        /\ i = [self \in Reqs |-> 0]
        /\ cardk = [self \in Reqs |-> 0]
        /\ isdummy = [self \in Reqs |-> FALSE]
        /\ fw = [self \in Reqs |-> 1]
        /\ stack = [self \in ProcSet |-> << >>]
        /\ pc = [self \in ProcSet |-> CASE self = 0 -> "m_accept"
                                        [] self = -1 -> "op_interrupt"
                                        [] self \in Reqs -> "p_begin"]

ss_enter(self) == /\ pc[self] = "ss_enter"
                  /\ IF SyncImpl = "barrier"
                        THEN /\ bar.state = 0
                             /\ IF bar.count + 1 = Parties
                                   THEN /\ bar' = [count |-> bar.count + 1, state |-> 1]
                                        /\ pc' = [pc EXCEPT ![self] = "ss_exit"]
                                   ELSE /\ bar' = [bar EXCEPT !.count = @ + 1]
                                        /\ pc' = [pc EXCEPT ![self] = "ss_wait"]
                             /\ UNCHANGED evSeat
                        ELSE /\ evSeat' = [evSeat EXCEPT ![me[self]] = TRUE]
                             /\ pc' = [pc EXCEPT ![self] = "sf_wait"]
                             /\ bar' = bar
                  /\ UNCHANGED << table, backlog, ev, evSync, toSeat, fromSeat, 
                                  sent, closed, started, finished, threads, 
                                  log, logState, aborted, interrupted, stack, 
                                  me, waitfor, cur, alive, b, auc, ply, msg_, 
                                  j, trick, ci, played, nc, seat, rq, msg, bn, 
                                  act, myturn, ncalls, declr, tr, i, cardk, 
                                  isdummy, fw >>

ss_wait(self) == /\ pc[self] = "ss_wait"
                 /\ bar.state = 1
                 /\ pc' = [pc EXCEPT ![self] = "ss_exit"]
                 /\ UNCHANGED << table, backlog, ev, bar, evSync, evSeat, 
                                 toSeat, fromSeat, sent, closed, started, 
                                 finished, threads, log, logState, aborted, 
                                 interrupted, stack, me, waitfor, cur, alive, 
                                 b, auc, ply, msg_, j, trick, ci, played, nc, 
                                 seat, rq, msg, bn, act, myturn, ncalls, declr, 
                                 tr, i, cardk, isdummy, fw >>

ss_exit(self) == /\ pc[self] = "ss_exit"
                 /\ bar' = [count |-> bar.count - 1, state |-> IF bar.count = 1 THEN 0 ELSE bar.state]
                 /\ pc' = [pc EXCEPT ![self] = Head(stack[self]).pc]
                 /\ me' = [me EXCEPT ![self] = Head(stack[self]).me]
                 /\ stack' = [stack EXCEPT ![self] = Tail(stack[self])]
                 /\ UNCHANGED << table, backlog, ev, evSync, evSeat, toSeat, 
                                 fromSeat, sent, closed, started, finished, 
                                 threads, log, logState, aborted, interrupted, 
                                 waitfor, cur, alive, b, auc, ply, msg_, j, 
                                 trick, ci, played, nc, seat, rq, msg, bn, act, 
                                 myturn, ncalls, declr, tr, i, cardk, isdummy, 
                                 fw >>

sf_wait(self) == /\ pc[self] = "sf_wait"
                 /\ IF evSync.flag
                       THEN /\ pc' = [pc EXCEPT ![self] = "sf_clear"]
                            /\ UNCHANGED evSync
                       ELSE /\ evSync' = [evSync EXCEPT !.waiters = @ \cup {self}]
                            /\ pc' = [pc EXCEPT ![self] = "sf_wake"]
                 /\ UNCHANGED << table, backlog, ev, bar, evSeat, toSeat, 
                                 fromSeat, sent, closed, started, finished, 
                                 threads, log, logState, aborted, interrupted, 
                                 stack, me, waitfor, cur, alive, b, auc, ply, 
                                 msg_, j, trick, ci, played, nc, seat, rq, msg, 
                                 bn, act, myturn, ncalls, declr, tr, i, cardk, 
                                 isdummy, fw >>

sf_wake(self) == /\ pc[self] = "sf_wake"
                 /\ self \in evSync.notified
                 /\ evSync' = [evSync EXCEPT !.notified = @ \ {self}]
                 /\ pc' = [pc EXCEPT ![self] = "sf_clear"]
                 /\ UNCHANGED << table, backlog, ev, bar, evSeat, toSeat, 
                                 fromSeat, sent, closed, started, finished, 
                                 threads, log, logState, aborted, interrupted, 
                                 stack, me, waitfor, cur, alive, b, auc, ply, 
                                 msg_, j, trick, ci, played, nc, seat, rq, msg, 
                                 bn, act, myturn, ncalls, declr, tr, i, cardk, 
                                 isdummy, fw >>

sf_clear(self) == /\ pc[self] = "sf_clear"
                  /\ evSeat' = [evSeat EXCEPT ![me[self]] = FALSE]
                  /\ pc' = [pc EXCEPT ![self] = Head(stack[self]).pc]
                  /\ me' = [me EXCEPT ![self] = Head(stack[self]).me]
                  /\ stack' = [stack EXCEPT ![self] = Tail(stack[self])]
                  /\ UNCHANGED << table, backlog, ev, bar, evSync, toSeat, 
                                  fromSeat, sent, closed, started, finished, 
                                  threads, log, logState, aborted, interrupted, 
                                  waitfor, cur, alive, b, auc, ply, msg_, j, 
                                  trick, ci, played, nc, seat, rq, msg, bn, 
                                  act, myturn, ncalls, declr, tr, i, cardk, 
                                  isdummy, fw >>

SyncSeat(self) == ss_enter(self) \/ ss_wait(self) \/ ss_exit(self)
                     \/ sf_wait(self) \/ sf_wake(self) \/ sf_clear(self)

sm_enter(self) == /\ pc[self] = "sm_enter"
                  /\ IF SyncImpl = "barrier"
                        THEN /\ bar.state = 0
                             /\ IF bar.count + 1 = Parties
                                   THEN /\ bar' = [count |-> bar.count + 1, state |-> 1]
                                        /\ pc' = [pc EXCEPT ![self] = "sm_exit"]
                                   ELSE /\ bar' = [bar EXCEPT !.count = @ + 1]
                                        /\ pc' = [pc EXCEPT ![self] = "sm_wait"]
                        ELSE /\ pc' = [pc EXCEPT ![self] = "sm_flags"]
                             /\ bar' = bar
                  /\ UNCHANGED << table, backlog, ev, evSync, evSeat, toSeat, 
                                  fromSeat, sent, closed, started, finished, 
                                  threads, log, logState, aborted, interrupted, 
                                  stack, me, waitfor, cur, alive, b, auc, ply, 
                                  msg_, j, trick, ci, played, nc, seat, rq, 
                                  msg, bn, act, myturn, ncalls, declr, tr, i, 
                                  cardk, isdummy, fw >>

sm_wait(self) == /\ pc[self] = "sm_wait"
                 /\ bar.state = 1
                 /\ pc' = [pc EXCEPT ![self] = "sm_exit"]
                 /\ UNCHANGED << table, backlog, ev, bar, evSync, evSeat, 
                                 toSeat, fromSeat, sent, closed, started, 
                                 finished, threads, log, logState, aborted, 
                                 interrupted, stack, me, waitfor, cur, alive, 
                                 b, auc, ply, msg_, j, trick, ci, played, nc, 
                                 seat, rq, msg, bn, act, myturn, ncalls, declr, 
                                 tr, i, cardk, isdummy, fw >>

sm_exit(self) == /\ pc[self] = "sm_exit"
                 /\ bar' = [count |-> bar.count - 1, state |-> IF bar.count = 1 THEN 0 ELSE bar.state]
                 /\ pc' = [pc EXCEPT ![self] = Head(stack[self]).pc]
                 /\ waitfor' = [waitfor EXCEPT ![self] = Head(stack[self]).waitfor]
                 /\ stack' = [stack EXCEPT ![self] = Tail(stack[self])]
                 /\ UNCHANGED << table, backlog, ev, evSync, evSeat, toSeat, 
                                 fromSeat, sent, closed, started, finished, 
                                 threads, log, logState, aborted, interrupted, 
                                 me, cur, alive, b, auc, ply, msg_, j, trick, 
                                 ci, played, nc, seat, rq, msg, bn, act, 
                                 myturn, ncalls, declr, tr, i, cardk, isdummy, 
                                 fw >>

sm_flags(self) == /\ pc[self] = "sm_flags"
                  /\ IF waitfor[self] < 4
                        THEN /\ evSeat[waitfor[self]]
                             /\ waitfor' = [waitfor EXCEPT ![self] = waitfor[self] + 1]
                             /\ pc' = [pc EXCEPT ![self] = "sm_flags"]
                        ELSE /\ pc' = [pc EXCEPT ![self] = "sm_set"]
                             /\ UNCHANGED waitfor
                  /\ UNCHANGED << table, backlog, ev, bar, evSync, evSeat, 
                                  toSeat, fromSeat, sent, closed, started, 
                                  finished, threads, log, logState, aborted, 
                                  interrupted, stack, me, cur, alive, b, auc, 
                                  ply, msg_, j, trick, ci, played, nc, seat, 
                                  rq, msg, bn, act, myturn, ncalls, declr, tr, 
                                  i, cardk, isdummy, fw >>

sm_set(self) == /\ pc[self] = "sm_set"
                /\ evSync' = [flag |-> TRUE, waiters |-> {}, notified |-> evSync.notified \cup evSync.waiters]
                /\ pc' = [pc EXCEPT ![self] = Head(stack[self]).pc]
                /\ waitfor' = [waitfor EXCEPT ![self] = Head(stack[self]).waitfor]
                /\ stack' = [stack EXCEPT ![self] = Tail(stack[self])]
                /\ UNCHANGED << table, backlog, ev, bar, evSeat, toSeat, 
                                fromSeat, sent, closed, started, finished, 
                                threads, log, logState, aborted, interrupted, 
                                me, cur, alive, b, auc, ply, msg_, j, trick, 
                                ci, played, nc, seat, rq, msg, bn, act, myturn, 
                                ncalls, declr, tr, i, cardk, isdummy, fw >>

SyncMain(self) == sm_enter(self) \/ sm_wait(self) \/ sm_exit(self)
                     \/ sm_flags(self) \/ sm_set(self)

m_accept == /\ pc[0] = "m_accept"
            /\ IF ~AllSeated
                  THEN /\ backlog <= NReq
                       /\ cur' = backlog
                       /\ backlog' = backlog + 1
                       /\ pc' = [pc EXCEPT ![0] = "m_start"]
                  ELSE /\ pc' = [pc EXCEPT ![0] = "m_b1"]
                       /\ UNCHANGED << backlog, cur >>
            /\ UNCHANGED << table, ev, bar, evSync, evSeat, toSeat, fromSeat, 
                            sent, closed, started, finished, threads, log, 
                            logState, aborted, interrupted, stack, me, waitfor, 
                            alive, b, auc, ply, msg_, j, trick, ci, played, nc, 
                            seat, rq, msg, bn, act, myturn, ncalls, declr, tr, 
                            i, cardk, isdummy, fw >>

m_start == /\ pc[0] = "m_start"
           /\ started' = [started EXCEPT ![cur] = TRUE]
           /\ pc' = [pc EXCEPT ![0] = "m_ev_wait"]
           /\ UNCHANGED << table, backlog, ev, bar, evSync, evSeat, toSeat, 
                           fromSeat, sent, closed, finished, threads, log, 
                           logState, aborted, interrupted, stack, me, waitfor, 
                           cur, alive, b, auc, ply, msg_, j, trick, ci, played, 
                           nc, seat, rq, msg, bn, act, myturn, ncalls, declr, 
                           tr, i, cardk, isdummy, fw >>

m_ev_wait == /\ pc[0] = "m_ev_wait"
             /\ IF ev.flag
                   THEN /\ pc' = [pc EXCEPT ![0] = "m_sleep_adm"]
                        /\ ev' = ev
                   ELSE /\ ev' = [ev EXCEPT !.waiters = @ \cup {0}]
                        /\ pc' = [pc EXCEPT ![0] = "m_ev_wake"]
             /\ UNCHANGED << table, backlog, bar, evSync, evSeat, toSeat, 
                             fromSeat, sent, closed, started, finished, 
                             threads, log, logState, aborted, interrupted, 
                             stack, me, waitfor, cur, alive, b, auc, ply, msg_, 
                             j, trick, ci, played, nc, seat, rq, msg, bn, act, 
                             myturn, ncalls, declr, tr, i, cardk, isdummy, fw >>

m_ev_wake == /\ pc[0] = "m_ev_wake"
             /\ 0 \in ev.notified
             /\ ev' = [ev EXCEPT !.notified = @ \ {0}]
             /\ pc' = [pc EXCEPT ![0] = "m_sleep_adm"]
             /\ UNCHANGED << table, backlog, bar, evSync, evSeat, toSeat, 
                             fromSeat, sent, closed, started, finished, 
                             threads, log, logState, aborted, interrupted, 
                             stack, me, waitfor, cur, alive, b, auc, ply, msg_, 
                             j, trick, ci, played, nc, seat, rq, msg, bn, act, 
                             myturn, ncalls, declr, tr, i, cardk, isdummy, fw >>

m_sleep_adm == /\ pc[0] = "m_sleep_adm"
               /\ TRUE
               /\ pc' = [pc EXCEPT ![0] = "m_alive"]
               /\ UNCHANGED << table, backlog, ev, bar, evSync, evSeat, toSeat, 
                               fromSeat, sent, closed, started, finished, 
                               threads, log, logState, aborted, interrupted, 
                               stack, me, waitfor, cur, alive, b, auc, ply, 
                               msg_, j, trick, ci, played, nc, seat, rq, msg, 
                               bn, act, myturn, ncalls, declr, tr, i, cardk, 
                               isdummy, fw >>

m_alive == /\ pc[0] = "m_alive"
           /\ IF ~finished[cur]
                 THEN /\ threads' = Append(threads, cur)
                 ELSE /\ TRUE
                      /\ UNCHANGED threads
           /\ pc' = [pc EXCEPT ![0] = "m_ev_clear"]
           /\ UNCHANGED << table, backlog, ev, bar, evSync, evSeat, toSeat, 
                           fromSeat, sent, closed, started, finished, log, 
                           logState, aborted, interrupted, stack, me, waitfor, 
                           cur, alive, b, auc, ply, msg_, j, trick, ci, played, 
                           nc, seat, rq, msg, bn, act, myturn, ncalls, declr, 
                           tr, i, cardk, isdummy, fw >>

m_ev_clear == /\ pc[0] = "m_ev_clear"
              /\ ev' = [ev EXCEPT !.flag = FALSE]
              /\ pc' = [pc EXCEPT ![0] = "m_accept"]
              /\ UNCHANGED << table, backlog, bar, evSync, evSeat, toSeat, 
                              fromSeat, sent, closed, started, finished, 
                              threads, log, logState, aborted, interrupted, 
                              stack, me, waitfor, cur, alive, b, auc, ply, 
                              msg_, j, trick, ci, played, nc, seat, rq, msg, 
                              bn, act, myturn, ncalls, declr, tr, i, cardk, 
                              isdummy, fw >>

m_b1 == /\ pc[0] = "m_b1"
        /\ stack' = [stack EXCEPT ![0] = << [ procedure |->  "SyncMain",
                                              pc        |->  "m_open",
                                              waitfor   |->  waitfor[0] ] >>
                                          \o stack[0]]
        /\ waitfor' = [waitfor EXCEPT ![0] = 0]
        /\ pc' = [pc EXCEPT ![0] = "sm_enter"]
        /\ UNCHANGED << table, backlog, ev, bar, evSync, evSeat, toSeat, 
                        fromSeat, sent, closed, started, finished, threads, 
                        log, logState, aborted, interrupted, me, cur, alive, b, 
                        auc, ply, msg_, j, trick, ci, played, nc, seat, rq, 
                        msg, bn, act, myturn, ncalls, declr, tr, i, cardk, 
                        isdummy, fw >>

m_open == /\ pc[0] = "m_open"
          /\ logState' = "open"
          /\ pc' = [pc EXCEPT ![0] = "m_board"]
          /\ UNCHANGED << table, backlog, ev, bar, evSync, evSeat, toSeat, 
                          fromSeat, sent, closed, started, finished, threads, 
                          log, aborted, interrupted, stack, me, waitfor, cur, 
                          alive, b, auc, ply, msg_, j, trick, ci, played, nc, 
                          seat, rq, msg, bn, act, myturn, ncalls, declr, tr, i, 
                          cardk, isdummy, fw >>

m_board == /\ pc[0] = "m_board"
           /\ IF b <= NB
                 THEN /\ IF SyncImpl = "flags"
                            THEN /\ evSync' = [evSync EXCEPT !.flag = FALSE]
                            ELSE /\ TRUE
                                 /\ UNCHANGED evSync
                      /\ pc' = [pc EXCEPT ![0] = "m_deal"]
                 ELSE /\ pc' = [pc EXCEPT ![0] = "m_close"]
                      /\ UNCHANGED evSync
           /\ UNCHANGED << table, backlog, ev, bar, evSeat, toSeat, fromSeat, 
                           sent, closed, started, finished, threads, log, 
                           logState, aborted, interrupted, stack, me, waitfor, 
                           cur, alive, b, auc, ply, msg_, j, trick, ci, played, 
                           nc, seat, rq, msg, bn, act, myturn, ncalls, declr, 
                           tr, i, cardk, isdummy, fw >>

m_deal == /\ pc[0] = "m_deal"
          /\ toSeat' = [s \in Seats |-> toSeat[s] \o <<MHdr(b), MHand(s)>>]
          /\ stack' = [stack EXCEPT ![0] = << [ procedure |->  "SyncMain",
                                                pc        |->  "m_deal2",
                                                waitfor   |->  waitfor[0] ] >>
                                            \o stack[0]]
          /\ waitfor' = [waitfor EXCEPT ![0] = 0]
          /\ pc' = [pc EXCEPT ![0] = "sm_enter"]
          /\ UNCHANGED << table, backlog, ev, bar, evSync, evSeat, fromSeat, 
                          sent, closed, started, finished, threads, log, 
                          logState, aborted, interrupted, me, cur, alive, b, 
                          auc, ply, msg_, j, trick, ci, played, nc, seat, rq, 
                          msg, bn, act, myturn, ncalls, declr, tr, i, cardk, 
                          isdummy, fw >>

m_deal2 == /\ pc[0] = "m_deal2"
           /\ IF SyncImpl = "flags"
                 THEN /\ evSync' = [evSync EXCEPT !.flag = FALSE]
                 ELSE /\ TRUE
                      /\ UNCHANGED evSync
           /\ pc' = [pc EXCEPT ![0] = "m_b3"]
           /\ UNCHANGED << table, backlog, ev, bar, evSeat, toSeat, fromSeat, 
                           sent, closed, started, finished, threads, log, 
                           logState, aborted, interrupted, stack, me, waitfor, 
                           cur, alive, b, auc, ply, msg_, j, trick, ci, played, 
                           nc, seat, rq, msg, bn, act, myturn, ncalls, declr, 
                           tr, i, cardk, isdummy, fw >>

m_b3 == /\ pc[0] = "m_b3"
        /\ stack' = [stack EXCEPT ![0] = << [ procedure |->  "SyncMain",
                                              pc        |->  "m_auction",
                                              waitfor   |->  waitfor[0] ] >>
                                          \o stack[0]]
        /\ waitfor' = [waitfor EXCEPT ![0] = 0]
        /\ pc' = [pc EXCEPT ![0] = "sm_enter"]
        /\ UNCHANGED << table, backlog, ev, bar, evSync, evSeat, toSeat, 
                        fromSeat, sent, closed, started, finished, threads, 
                        log, logState, aborted, interrupted, me, cur, alive, b, 
                        auc, ply, msg_, j, trick, ci, played, nc, seat, rq, 
                        msg, bn, act, myturn, ncalls, declr, tr, i, cardk, 
                        isdummy, fw >>

m_auction == /\ pc[0] = "m_auction"
             /\ auc' = A!InitAuction(Boards[b].dealer, Boards[b].vul)
             /\ nc' = 0
             /\ pc' = [pc EXCEPT ![0] = "m_turn"]
             /\ UNCHANGED << table, backlog, ev, bar, evSync, evSeat, toSeat, 
                             fromSeat, sent, closed, started, finished, 
                             threads, log, logState, aborted, interrupted, 
                             stack, me, waitfor, cur, alive, b, ply, msg_, j, 
                             trick, ci, played, seat, rq, msg, bn, act, myturn, 
                             ncalls, declr, tr, i, cardk, isdummy, fw >>

m_turn == /\ pc[0] = "m_turn"
          /\ IF ~A!Done(auc)
                THEN /\ toSeat' = PutAll(toSeat, MName(auc.active))
                     /\ pc' = [pc EXCEPT ![0] = "m_call"]
                ELSE /\ pc' = [pc EXCEPT ![0] = "m_contract"]
                     /\ UNCHANGED toSeat
          /\ UNCHANGED << table, backlog, ev, bar, evSync, evSeat, fromSeat, 
                          sent, closed, started, finished, threads, log, 
                          logState, aborted, interrupted, stack, me, waitfor, 
                          cur, alive, b, auc, ply, msg_, j, trick, ci, played, 
                          nc, seat, rq, msg, bn, act, myturn, ncalls, declr, 
                          tr, i, cardk, isdummy, fw >>

m_call == /\ pc[0] = "m_call"
          /\ fromSeat[auc.active] # <<>> \/ interrupted
          /\ IF interrupted
                THEN /\ pc' = [pc EXCEPT ![0] = "m_raise"]
                     /\ UNCHANGED << toSeat, fromSeat, auc, msg_, nc >>
                ELSE /\ msg_' = Head(fromSeat[auc.active])
                     /\ fromSeat' = [fromSeat EXCEPT ![auc.active] = Tail(fromSeat[auc.active])]
                     /\ nc' = nc + 1
                     /\ IF msg_'.t = "bad"
                           THEN /\ toSeat' = [s \in Seats |-> Append(toSeat[s],
                                                 IF s = auc.active THEN MIllegal ELSE MError)]
                                /\ pc' = [pc EXCEPT ![0] = "m_raise"]
                                /\ auc' = auc
                           ELSE /\ IF RelayImpl = "main"
                                      THEN /\ toSeat' = PutTo(toSeat, Others(auc.active), msg_')
                                      ELSE /\ TRUE
                                           /\ UNCHANGED toSeat
                                /\ auc' = A!Step(auc, msg_'.call).st
                                /\ pc' = [pc EXCEPT ![0] = "m_turn"]
          /\ UNCHANGED << table, backlog, ev, bar, evSync, evSeat, sent, 
                          closed, started, finished, threads, log, logState, 
                          aborted, interrupted, stack, me, waitfor, cur, alive, 
                          b, ply, j, trick, ci, played, seat, rq, msg, bn, act, 
                          myturn, ncalls, declr, tr, i, cardk, isdummy, fw >>

m_contract == /\ pc[0] = "m_contract"
              /\ toSeat' = [s \in Seats |-> toSeat[s] \o
                              (IF A!Contract(auc).bid = NoCall THEN <<MNull, MPassedOut>>
                               ELSE <<MNull, MNull, MName(A!Contract(auc).decl)>>)]
              /\ IF A!Contract(auc).bid # NoCall
                    THEN /\ ply' = P!InitPlay("hands", NoSeat, Boards[b].deal, Strain(A!Contract(auc).bid),
                                              A!Contract(auc).decl)
                         /\ trick' = 1
                         /\ pc' = [pc EXCEPT ![0] = "m_trick"]
                    ELSE /\ pc' = [pc EXCEPT ![0] = "m_write"]
                         /\ UNCHANGED << ply, trick >>
              /\ UNCHANGED << table, backlog, ev, bar, evSync, evSeat, 
                              fromSeat, sent, closed, started, finished, 
                              threads, log, logState, aborted, interrupted, 
                              stack, me, waitfor, cur, alive, b, auc, msg_, j, 
                              ci, played, nc, seat, rq, msg, bn, act, myturn, 
                              ncalls, declr, tr, i, cardk, isdummy, fw >>

m_trick == /\ pc[0] = "m_trick"
           /\ IF trick <= NTricksM
                 THEN /\ pc' = [pc EXCEPT ![0] = "m_sleep_trick"]
                 ELSE /\ pc' = [pc EXCEPT ![0] = "m_write"]
           /\ UNCHANGED << table, backlog, ev, bar, evSync, evSeat, toSeat, 
                           fromSeat, sent, closed, started, finished, threads, 
                           log, logState, aborted, interrupted, stack, me, 
                           waitfor, cur, alive, b, auc, ply, msg_, j, trick, 
                           ci, played, nc, seat, rq, msg, bn, act, myturn, 
                           ncalls, declr, tr, i, cardk, isdummy, fw >>

m_sleep_trick == /\ pc[0] = "m_sleep_trick"
                 /\ toSeat' = PutAll(toSeat, MName(ply.leader))
                 /\ ci' = 0
                 /\ pc' = [pc EXCEPT ![0] = "m_cards"]
                 /\ UNCHANGED << table, backlog, ev, bar, evSync, evSeat, 
                                 fromSeat, sent, closed, started, finished, 
                                 threads, log, logState, aborted, interrupted, 
                                 stack, me, waitfor, cur, alive, b, auc, ply, 
                                 msg_, j, trick, played, nc, seat, rq, msg, bn, 
                                 act, myturn, ncalls, declr, tr, i, cardk, 
                                 isdummy, fw >>

m_cards == /\ pc[0] = "m_cards"
           /\ IF ci < 4
                 THEN /\ played' = (IF ply.active = ply.dummy THEN ply.decl ELSE ply.active)
                      /\ pc' = [pc EXCEPT ![0] = "m_card"]
                      /\ trick' = trick
                 ELSE /\ trick' = trick + 1
                      /\ pc' = [pc EXCEPT ![0] = "m_trick"]
                      /\ UNCHANGED played
           /\ UNCHANGED << table, backlog, ev, bar, evSync, evSeat, toSeat, 
                           fromSeat, sent, closed, started, finished, threads, 
                           log, logState, aborted, interrupted, stack, me, 
                           waitfor, cur, alive, b, auc, ply, msg_, j, ci, nc, 
                           seat, rq, msg, bn, act, myturn, ncalls, declr, tr, 
                           i, cardk, isdummy, fw >>

m_card == /\ pc[0] = "m_card"
          /\ fromSeat[played] # <<>> \/ interrupted
          /\ IF interrupted
                THEN /\ pc' = [pc EXCEPT ![0] = "m_raise"]
                     /\ UNCHANGED << toSeat, fromSeat, ply, msg_, ci >>
                ELSE /\ msg_' = Head(fromSeat[played])
                     /\ fromSeat' = [fromSeat EXCEPT ![played] = Tail(fromSeat[played])]
                     /\ IF msg_'.t = "bad"
                           THEN /\ pc' = [pc EXCEPT ![0] = "m_raise"]
                                /\ UNCHANGED << toSeat, ply, ci >>
                           ELSE /\ toSeat' = [s \in Seats |->
                                                toSeat[s] \o (IF s # played THEN <<msg_'>> ELSE <<>>)
                                                  \o (IF trick = 1 /\ ci = 0 /\ s # ply.dummy THEN <<MDummy>>
                                                      ELSE <<>>)]
                                /\ ply' = P!PStep(ply, ply.active, msg_'.card).st
                                /\ ci' = ci + 1
                                /\ pc' = [pc EXCEPT ![0] = "m_cards"]
          /\ UNCHANGED << table, backlog, ev, bar, evSync, evSeat, sent, 
                          closed, started, finished, threads, log, logState, 
                          aborted, interrupted, stack, me, waitfor, cur, alive, 
                          b, auc, j, trick, played, nc, seat, rq, msg, bn, act, 
                          myturn, ncalls, declr, tr, i, cardk, isdummy, fw >>

m_write == /\ pc[0] = "m_write"
           /\ log' = Append(log, IF A!Contract(auc).bid = NoCall
                                 THEN [board |-> b, contract |-> A!Contract(auc), taken |-> -1]
                                 ELSE [board |-> b, contract |-> A!Contract(auc),
                                       taken |-> ply.taken[Side(A!Contract(auc).decl)]])
           /\ IF b < NB
                 THEN /\ toSeat' = PutAll(toSeat, MNext)
                 ELSE /\ TRUE
                      /\ UNCHANGED toSeat
           /\ b' = b + 1
           /\ pc' = [pc EXCEPT ![0] = "m_board"]
           /\ UNCHANGED << table, backlog, ev, bar, evSync, evSeat, fromSeat, 
                           sent, closed, started, finished, threads, logState, 
                           aborted, interrupted, stack, me, waitfor, cur, 
                           alive, auc, ply, msg_, j, trick, ci, played, nc, 
                           seat, rq, msg, bn, act, myturn, ncalls, declr, tr, 
                           i, cardk, isdummy, fw >>

m_close == /\ pc[0] = "m_close"
           /\ IF EndAnnounce = "before-close"
                 THEN /\ toSeat' = PutAll(toSeat, MEnd)
                      /\ pc' = [pc EXCEPT ![0] = "m_close2"]
                      /\ UNCHANGED logState
                 ELSE /\ logState' = "closed"
                      /\ toSeat' = PutAll(toSeat, MEnd)
                      /\ pc' = [pc EXCEPT ![0] = "m_join"]
           /\ UNCHANGED << table, backlog, ev, bar, evSync, evSeat, fromSeat, 
                           sent, closed, started, finished, threads, log, 
                           aborted, interrupted, stack, me, waitfor, cur, 
                           alive, b, auc, ply, msg_, j, trick, ci, played, nc, 
                           seat, rq, msg, bn, act, myturn, ncalls, declr, tr, 
                           i, cardk, isdummy, fw >>

m_close2 == /\ pc[0] = "m_close2"
            /\ logState' = "closed"
            /\ pc' = [pc EXCEPT ![0] = "m_join"]
            /\ UNCHANGED << table, backlog, ev, bar, evSync, evSeat, toSeat, 
                            fromSeat, sent, closed, started, finished, threads, 
                            log, aborted, interrupted, stack, me, waitfor, cur, 
                            alive, b, auc, ply, msg_, j, trick, ci, played, nc, 
                            seat, rq, msg, bn, act, myturn, ncalls, declr, tr, 
                            i, cardk, isdummy, fw >>

m_join == /\ pc[0] = "m_join"
          /\ IF j <= Len(threads)
                THEN /\ finished[threads[j]] \/ JoinImpl = "bounded"
                     /\ j' = j + 1
                     /\ pc' = [pc EXCEPT ![0] = "m_join"]
                ELSE /\ pc' = [pc EXCEPT ![0] = "m_done"]
                     /\ j' = j
          /\ UNCHANGED << table, backlog, ev, bar, evSync, evSeat, toSeat, 
                          fromSeat, sent, closed, started, finished, threads, 
                          log, logState, aborted, interrupted, stack, me, 
                          waitfor, cur, alive, b, auc, ply, msg_, trick, ci, 
                          played, nc, seat, rq, msg, bn, act, myturn, ncalls, 
                          declr, tr, i, cardk, isdummy, fw >>

m_raise == /\ pc[0] = "m_raise"
           /\ aborted' = TRUE
           /\ IF CloseOnAbort
                 THEN /\ logState' = "closed"
                 ELSE /\ TRUE
                      /\ UNCHANGED logState
           /\ pc' = [pc EXCEPT ![0] = "m_done"]
           /\ UNCHANGED << table, backlog, ev, bar, evSync, evSeat, toSeat, 
                           fromSeat, sent, closed, started, finished, threads, 
                           log, interrupted, stack, me, waitfor, cur, alive, b, 
                           auc, ply, msg_, j, trick, ci, played, nc, seat, rq, 
                           msg, bn, act, myturn, ncalls, declr, tr, i, cardk, 
                           isdummy, fw >>

m_done == /\ pc[0] = "m_done"
          /\ TRUE
          /\ pc' = [pc EXCEPT ![0] = "Done"]
          /\ UNCHANGED << table, backlog, ev, bar, evSync, evSeat, toSeat, 
                          fromSeat, sent, closed, started, finished, threads, 
                          log, logState, aborted, interrupted, stack, me, 
                          waitfor, cur, alive, b, auc, ply, msg_, j, trick, ci, 
                          played, nc, seat, rq, msg, bn, act, myturn, ncalls, 
                          declr, tr, i, cardk, isdummy, fw >>

Main == m_accept \/ m_start \/ m_ev_wait \/ m_ev_wake \/ m_sleep_adm
           \/ m_alive \/ m_ev_clear \/ m_b1 \/ m_open \/ m_board \/ m_deal
           \/ m_deal2 \/ m_b3 \/ m_auction \/ m_turn \/ m_call
           \/ m_contract \/ m_trick \/ m_sleep_trick \/ m_cards \/ m_card
           \/ m_write \/ m_close \/ m_close2 \/ m_join \/ m_raise \/ m_done

op_interrupt == /\ pc[-1] = "op_interrupt"
                /\ IF Interrupts
                      THEN /\ \/ /\ interrupted' = TRUE
                              \/ /\ TRUE
                                 /\ UNCHANGED interrupted
                      ELSE /\ TRUE
                           /\ UNCHANGED interrupted
                /\ pc' = [pc EXCEPT ![-1] = "Done"]
                /\ UNCHANGED << table, backlog, ev, bar, evSync, evSeat, 
                                toSeat, fromSeat, sent, closed, started, 
                                finished, threads, log, logState, aborted, 
                                stack, me, waitfor, cur, alive, b, auc, ply, 
                                msg_, j, trick, ci, played, nc, seat, rq, msg, 
                                bn, act, myturn, ncalls, declr, tr, i, cardk, 
                                isdummy, fw >>

Operator == op_interrupt

p_begin(self) == /\ pc[self] = "p_begin"
                 /\ started[self]
                 /\ pc' = [pc EXCEPT ![self] = "p_conn"]
                 /\ UNCHANGED << table, backlog, ev, bar, evSync, evSeat, 
                                 toSeat, fromSeat, sent, closed, started, 
                                 finished, threads, log, logState, aborted, 
                                 interrupted, stack, me, waitfor, cur, alive, 
                                 b, auc, ply, msg_, j, trick, ci, played, nc, 
                                 seat, rq, msg, bn, act, myturn, ncalls, declr, 
                                 tr, i, cardk, isdummy, fw >>

p_conn(self) == /\ pc[self] = "p_conn"
                /\ IF rq[self].version # 18
                      THEN /\ sent' = [sent EXCEPT ![self] = Append(sent[self], MErr("version"))]
                           /\ closed' = [closed EXCEPT ![self] = TRUE]
                           /\ pc' = [pc EXCEPT ![self] = "p_ev_set_rej"]
                           /\ table' = table
                      ELSE /\ IF table[seat[self]] # Free
                                 THEN /\ sent' = [sent EXCEPT ![self] = Append(sent[self], MErr("seated"))]
                                      /\ closed' = [closed EXCEPT ![self] = TRUE]
                                      /\ pc' = [pc EXCEPT ![self] = "p_ev_set_rej"]
                                      /\ table' = table
                                 ELSE /\ IF table[Partner(seat[self])] # Free /\ table[Partner(seat[self])] # rq[self].team
                                            THEN /\ sent' = [sent EXCEPT ![self] = Append(sent[self], MErr("team"))]
                                                 /\ closed' = [closed EXCEPT ![self] = TRUE]
                                                 /\ pc' = [pc EXCEPT ![self] = "p_ev_set_rej"]
                                                 /\ table' = table
                                            ELSE /\ table' = [table EXCEPT ![seat[self]] = rq[self].team]
                                                 /\ sent' = [sent EXCEPT ![self] = Append(sent[self], MSeated(seat[self]))]
                                                 /\ pc' = [pc EXCEPT ![self] = "p_ev_set"]
                                                 /\ UNCHANGED closed
                /\ UNCHANGED << backlog, ev, bar, evSync, evSeat, toSeat, 
                                fromSeat, started, finished, threads, log, 
                                logState, aborted, interrupted, stack, me, 
                                waitfor, cur, alive, b, auc, ply, msg_, j, 
                                trick, ci, played, nc, seat, rq, msg, bn, act, 
                                myturn, ncalls, declr, tr, i, cardk, isdummy, 
                                fw >>

p_ev_set(self) == /\ pc[self] = "p_ev_set"
                  /\ ev' = [flag |-> TRUE, waiters |-> {}, notified |-> ev.notified \cup ev.waiters]
                  /\ pc' = [pc EXCEPT ![self] = "p_b1"]
                  /\ UNCHANGED << table, backlog, bar, evSync, evSeat, toSeat, 
                                  fromSeat, sent, closed, started, finished, 
                                  threads, log, logState, aborted, interrupted, 
                                  stack, me, waitfor, cur, alive, b, auc, ply, 
                                  msg_, j, trick, ci, played, nc, seat, rq, 
                                  msg, bn, act, myturn, ncalls, declr, tr, i, 
                                  cardk, isdummy, fw >>

p_b1(self) == /\ pc[self] = "p_b1"
              /\ /\ me' = [me EXCEPT ![self] = seat[self]]
                 /\ stack' = [stack EXCEPT ![self] = << [ procedure |->  "SyncSeat",
                                                          pc        |->  "p_teams",
                                                          me        |->  me[self] ] >>
                                                      \o stack[self]]
              /\ pc' = [pc EXCEPT ![self] = "ss_enter"]
              /\ UNCHANGED << table, backlog, ev, bar, evSync, evSeat, toSeat, 
                              fromSeat, sent, closed, started, finished, 
                              threads, log, logState, aborted, interrupted, 
                              waitfor, cur, alive, b, auc, ply, msg_, j, trick, 
                              ci, played, nc, seat, rq, msg, bn, act, myturn, 
                              ncalls, declr, tr, i, cardk, isdummy, fw >>

p_teams(self) == /\ pc[self] = "p_teams"
                 /\ sent' = [sent EXCEPT ![self] = Append(sent[self], MTeams)]
                 /\ pc' = [pc EXCEPT ![self] = "p_board"]
                 /\ UNCHANGED << table, backlog, ev, bar, evSync, evSeat, 
                                 toSeat, fromSeat, closed, started, finished, 
                                 threads, log, logState, aborted, interrupted, 
                                 stack, me, waitfor, cur, alive, b, auc, ply, 
                                 msg_, j, trick, ci, played, nc, seat, rq, msg, 
                                 bn, act, myturn, ncalls, declr, tr, i, cardk, 
                                 isdummy, fw >>

p_board(self) == /\ pc[self] = "p_board"
                 /\ sent' = [sent EXCEPT ![self] = sent[self] \o (IF IsFault(bn[self], "ready-deal", seat[self])
                                                                   THEN <<MStart, MErr("unexpected")>> ELSE <<MStart>>)]
                 /\ IF IsFault(bn[self], "ready-deal", seat[self])
                       THEN /\ closed' = [closed EXCEPT ![self] = TRUE]
                            /\ pc' = [pc EXCEPT ![self] = "p_end"]
                            /\ UNCHANGED << stack, me >>
                       ELSE /\ /\ me' = [me EXCEPT ![self] = seat[self]]
                               /\ stack' = [stack EXCEPT ![self] = << [ procedure |->  "SyncSeat",
                                                                        pc        |->  "p_hdr",
                                                                        me        |->  me[self] ] >>
                                                                    \o stack[self]]
                            /\ pc' = [pc EXCEPT ![self] = "ss_enter"]
                            /\ UNCHANGED closed
                 /\ UNCHANGED << table, backlog, ev, bar, evSync, evSeat, 
                                 toSeat, fromSeat, started, finished, threads, 
                                 log, logState, aborted, interrupted, waitfor, 
                                 cur, alive, b, auc, ply, msg_, j, trick, ci, 
                                 played, nc, seat, rq, msg, bn, act, myturn, 
                                 ncalls, declr, tr, i, cardk, isdummy, fw >>

p_hdr(self) == /\ pc[self] = "p_hdr"
               /\ toSeat[seat[self]] # <<>>
               /\ sent' = [sent EXCEPT ![self] = sent[self] \o (IF IsFault(bn[self], "ready-cards", seat[self])
                                                                 THEN <<Head(toSeat[seat[self]]), MErr("unexpected")>>
                                                                 ELSE <<Head(toSeat[seat[self]])>>)]
               /\ toSeat' = [toSeat EXCEPT ![seat[self]] = Tail(toSeat[seat[self]])]
               /\ IF IsFault(bn[self], "ready-cards", seat[self])
                     THEN /\ closed' = [closed EXCEPT ![self] = TRUE]
                          /\ pc' = [pc EXCEPT ![self] = "p_end"]
                          /\ UNCHANGED << stack, me >>
                     ELSE /\ /\ me' = [me EXCEPT ![self] = seat[self]]
                             /\ stack' = [stack EXCEPT ![self] = << [ procedure |->  "SyncSeat",
                                                                      pc        |->  "p_hand",
                                                                      me        |->  me[self] ] >>
                                                                  \o stack[self]]
                          /\ pc' = [pc EXCEPT ![self] = "ss_enter"]
                          /\ UNCHANGED closed
               /\ UNCHANGED << table, backlog, ev, bar, evSync, evSeat, 
                               fromSeat, started, finished, threads, log, 
                               logState, aborted, interrupted, waitfor, cur, 
                               alive, b, auc, ply, msg_, j, trick, ci, played, 
                               nc, seat, rq, msg, bn, act, myturn, ncalls, 
                               declr, tr, i, cardk, isdummy, fw >>

p_hand(self) == /\ pc[self] = "p_hand"
                /\ toSeat[seat[self]] # <<>>
                /\ sent' = [sent EXCEPT ![self] = Append(sent[self], Head(toSeat[seat[self]]))]
                /\ toSeat' = [toSeat EXCEPT ![seat[self]] = Tail(toSeat[seat[self]])]
                /\ ncalls' = [ncalls EXCEPT ![self] = 0]
                /\ pc' = [pc EXCEPT ![self] = "p_turn"]
                /\ UNCHANGED << table, backlog, ev, bar, evSync, evSeat, 
                                fromSeat, closed, started, finished, threads, 
                                log, logState, aborted, interrupted, stack, me, 
                                waitfor, cur, alive, b, auc, ply, msg_, j, 
                                trick, ci, played, nc, seat, rq, msg, bn, act, 
                                myturn, declr, tr, i, cardk, isdummy, fw >>

p_turn(self) == /\ pc[self] = "p_turn"
                /\ toSeat[seat[self]] # <<>>
                /\ msg' = [msg EXCEPT ![self] = Head(toSeat[seat[self]])]
                /\ toSeat' = [toSeat EXCEPT ![seat[self]] = Tail(toSeat[seat[self]])]
                /\ IF msg'[self].t = "NULL"
                      THEN /\ pc' = [pc EXCEPT ![self] = "p_po"]
                           /\ UNCHANGED << fromSeat, sent, closed, ncalls, fw >>
                      ELSE /\ IF msg'[self].t \in {"ILLEGAL", "ERROR"}
                                 THEN /\ sent' = [sent EXCEPT ![self] = Append(sent[self], MErr(msg'[self].t))]
                                      /\ closed' = [closed EXCEPT ![self] = TRUE]
                                      /\ pc' = [pc EXCEPT ![self] = "p_end"]
                                      /\ UNCHANGED << fromSeat, ncalls, fw >>
                                 ELSE /\ ncalls' = [ncalls EXCEPT ![self] = ncalls[self] + 1]
                                      /\ IF msg'[self].seat = seat[self]
                                            THEN /\ fromSeat' = [fromSeat EXCEPT ![seat[self]] = Append(fromSeat[seat[self]],
                                                                                                        IF IsFault(bn[self], "auction", ncalls'[self]) THEN MBad
                                                                                                        ELSE MCall(seat[self], Script[bn[self]].calls[ncalls'[self]]))]
                                                 /\ IF RelayImpl = "seat"
                                                       THEN /\ fw' = [fw EXCEPT ![self] = 1]
                                                            /\ pc' = [pc EXCEPT ![self] = "p_fwd"]
                                                       ELSE /\ pc' = [pc EXCEPT ![self] = "p_turn"]
                                                            /\ fw' = fw
                                            ELSE /\ pc' = [pc EXCEPT ![self] = "p_relay"]
                                                 /\ UNCHANGED << fromSeat, fw >>
                                      /\ UNCHANGED << sent, closed >>
                /\ UNCHANGED << table, backlog, ev, bar, evSync, evSeat, 
                                started, finished, threads, log, logState, 
                                aborted, interrupted, stack, me, waitfor, cur, 
                                alive, b, auc, ply, msg_, j, trick, ci, played, 
                                nc, seat, rq, bn, act, myturn, declr, tr, i, 
                                cardk, isdummy >>

p_relay(self) == /\ pc[self] = "p_relay"
                 /\ toSeat[seat[self]] # <<>>
                 /\ sent' = [sent EXCEPT ![self] = Append(sent[self], Head(toSeat[seat[self]]))]
                 /\ toSeat' = [toSeat EXCEPT ![seat[self]] = Tail(toSeat[seat[self]])]
                 /\ pc' = [pc EXCEPT ![self] = "p_turn"]
                 /\ UNCHANGED << table, backlog, ev, bar, evSync, evSeat, 
                                 fromSeat, closed, started, finished, threads, 
                                 log, logState, aborted, interrupted, stack, 
                                 me, waitfor, cur, alive, b, auc, ply, msg_, j, 
                                 trick, ci, played, nc, seat, rq, msg, bn, act, 
                                 myturn, ncalls, declr, tr, i, cardk, isdummy, 
                                 fw >>

p_fwd(self) == /\ pc[self] = "p_fwd"
               /\ IF fw[self] <= 3
                     THEN /\ toSeat' = [toSeat EXCEPT ![(seat[self] + fw[self]) % 4] = Append(toSeat[(seat[self] + fw[self]) % 4],
                                                                                              IF IsFault(bn[self], "auction", ncalls[self]) THEN MBad
                                                                                              ELSE MCall(seat[self], Script[bn[self]].calls[ncalls[self]]))]
                          /\ fw' = [fw EXCEPT ![self] = fw[self] + 1]
                          /\ pc' = [pc EXCEPT ![self] = "p_fwd"]
                     ELSE /\ pc' = [pc EXCEPT ![self] = "p_turn"]
                          /\ UNCHANGED << toSeat, fw >>
               /\ UNCHANGED << table, backlog, ev, bar, evSync, evSeat, 
                               fromSeat, sent, closed, started, finished, 
                               threads, log, logState, aborted, interrupted, 
                               stack, me, waitfor, cur, alive, b, auc, ply, 
                               msg_, j, trick, ci, played, nc, seat, rq, msg, 
                               bn, act, myturn, ncalls, declr, tr, i, cardk, 
                               isdummy >>

p_po(self) == /\ pc[self] = "p_po"
              /\ toSeat[seat[self]] # <<>>
              /\ msg' = [msg EXCEPT ![self] = Head(toSeat[seat[self]])]
              /\ toSeat' = [toSeat EXCEPT ![seat[self]] = Tail(toSeat[seat[self]])]
              /\ IF msg'[self].t = "PASSED_OUT"
                    THEN /\ pc' = [pc EXCEPT ![self] = "p_status"]
                    ELSE /\ pc' = [pc EXCEPT ![self] = "p_decl"]
              /\ UNCHANGED << table, backlog, ev, bar, evSync, evSeat, 
                              fromSeat, sent, closed, started, finished, 
                              threads, log, logState, aborted, interrupted, 
                              stack, me, waitfor, cur, alive, b, auc, ply, 
                              msg_, j, trick, ci, played, nc, seat, rq, bn, 
                              act, myturn, ncalls, declr, tr, i, cardk, 
                              isdummy, fw >>

p_decl(self) == /\ pc[self] = "p_decl"
                /\ toSeat[seat[self]] # <<>>
                /\ declr' = [declr EXCEPT ![self] = Head(toSeat[seat[self]]).seat]
                /\ toSeat' = [toSeat EXCEPT ![seat[self]] = Tail(toSeat[seat[self]])]
                /\ tr' = [tr EXCEPT ![self] = 1]
                /\ pc' = [pc EXCEPT ![self] = "p_leader"]
                /\ UNCHANGED << table, backlog, ev, bar, evSync, evSeat, 
                                fromSeat, sent, closed, started, finished, 
                                threads, log, logState, aborted, interrupted, 
                                stack, me, waitfor, cur, alive, b, auc, ply, 
                                msg_, j, trick, ci, played, nc, seat, rq, msg, 
                                bn, act, myturn, ncalls, i, cardk, isdummy, fw >>

p_leader(self) == /\ pc[self] = "p_leader"
                  /\ toSeat[seat[self]] # <<>>
                  /\ act' = [act EXCEPT ![self] = Head(toSeat[seat[self]]).seat]
                  /\ toSeat' = [toSeat EXCEPT ![seat[self]] = Tail(toSeat[seat[self]])]
                  /\ i' = [i EXCEPT ![self] = 0]
                  /\ pc' = [pc EXCEPT ![self] = "p_cardloop"]
                  /\ UNCHANGED << table, backlog, ev, bar, evSync, evSeat, 
                                  fromSeat, sent, closed, started, finished, 
                                  threads, log, logState, aborted, interrupted, 
                                  stack, me, waitfor, cur, alive, b, auc, ply, 
                                  msg_, j, trick, ci, played, nc, seat, rq, 
                                  msg, bn, myturn, ncalls, declr, tr, cardk, 
                                  isdummy, fw >>

p_cardloop(self) == /\ pc[self] = "p_cardloop"
                    /\ IF i[self] < 4
                          THEN /\ cardk' = [cardk EXCEPT ![self] = (tr[self] - 1) * 4 + i[self] + 1]
                               /\ IF (seat[self] = act[self] /\ seat[self] # Partner(declr[self])) \/ (seat[self] = declr[self] /\ act[self] = Partner(declr[self]))
                                     THEN /\ IF i[self] = 0
                                                THEN /\ sent' = [sent EXCEPT ![self] = Append(sent[self],
                                                                                              IF act[self] = Partner(declr[self]) THEN MDummyLead ELSE MLead(seat[self]))]
                                                ELSE /\ TRUE
                                                     /\ sent' = sent
                                          /\ fromSeat' = [fromSeat EXCEPT ![seat[self]] = Append(fromSeat[seat[self]],
                                                                                                 IF IsFault(bn[self], "play", cardk'[self]) THEN MBad
                                                                                                 ELSE MCard(act[self], Script[bn[self]].cards[cardk'[self]]))]
                                          /\ pc' = [pc EXCEPT ![self] = "p_after"]
                                     ELSE /\ pc' = [pc EXCEPT ![self] = "p_cardrelay"]
                                          /\ UNCHANGED << fromSeat, sent >>
                               /\ tr' = tr
                          ELSE /\ tr' = [tr EXCEPT ![self] = tr[self] + 1]
                               /\ IF tr'[self] <= NTricksM
                                     THEN /\ pc' = [pc EXCEPT ![self] = "p_leader"]
                                     ELSE /\ pc' = [pc EXCEPT ![self] = "p_status"]
                               /\ UNCHANGED << fromSeat, sent, cardk >>
                    /\ UNCHANGED << table, backlog, ev, bar, evSync, evSeat, 
                                    toSeat, closed, started, finished, threads, 
                                    log, logState, aborted, interrupted, stack, 
                                    me, waitfor, cur, alive, b, auc, ply, msg_, 
                                    j, trick, ci, played, nc, seat, rq, msg, 
                                    bn, act, myturn, ncalls, declr, i, isdummy, 
                                    fw >>

p_after(self) == /\ pc[self] = "p_after"
                 /\ act' = [act EXCEPT ![self] = Left(act[self])]
                 /\ IF tr[self] = 1 /\ i[self] = 0 /\ seat[self] # Partner(declr[self])
                       THEN /\ pc' = [pc EXCEPT ![self] = "p_dummy"]
                       ELSE /\ pc' = [pc EXCEPT ![self] = "p_next"]
                 /\ UNCHANGED << table, backlog, ev, bar, evSync, evSeat, 
                                 toSeat, fromSeat, sent, closed, started, 
                                 finished, threads, log, logState, aborted, 
                                 interrupted, stack, me, waitfor, cur, alive, 
                                 b, auc, ply, msg_, j, trick, ci, played, nc, 
                                 seat, rq, msg, bn, myturn, ncalls, declr, tr, 
                                 i, cardk, isdummy, fw >>

p_dummy(self) == /\ pc[self] = "p_dummy"
                 /\ toSeat[seat[self]] # <<>>
                 /\ sent' = [sent EXCEPT ![self] = Append(sent[self], Head(toSeat[seat[self]]))]
                 /\ toSeat' = [toSeat EXCEPT ![seat[self]] = Tail(toSeat[seat[self]])]
                 /\ pc' = [pc EXCEPT ![self] = "p_next"]
                 /\ UNCHANGED << table, backlog, ev, bar, evSync, evSeat, 
                                 fromSeat, closed, started, finished, threads, 
                                 log, logState, aborted, interrupted, stack, 
                                 me, waitfor, cur, alive, b, auc, ply, msg_, j, 
                                 trick, ci, played, nc, seat, rq, msg, bn, act, 
                                 myturn, ncalls, declr, tr, i, cardk, isdummy, 
                                 fw >>

p_next(self) == /\ pc[self] = "p_next"
                /\ i' = [i EXCEPT ![self] = i[self] + 1]
                /\ pc' = [pc EXCEPT ![self] = "p_cardloop"]
                /\ UNCHANGED << table, backlog, ev, bar, evSync, evSeat, 
                                toSeat, fromSeat, sent, closed, started, 
                                finished, threads, log, logState, aborted, 
                                interrupted, stack, me, waitfor, cur, alive, b, 
                                auc, ply, msg_, j, trick, ci, played, nc, seat, 
                                rq, msg, bn, act, myturn, ncalls, declr, tr, 
                                cardk, isdummy, fw >>

p_cardrelay(self) == /\ pc[self] = "p_cardrelay"
                     /\ toSeat[seat[self]] # <<>>
                     /\ sent' = [sent EXCEPT ![self] = Append(sent[self], Head(toSeat[seat[self]]))]
                     /\ toSeat' = [toSeat EXCEPT ![seat[self]] = Tail(toSeat[seat[self]])]
                     /\ pc' = [pc EXCEPT ![self] = "p_after"]
                     /\ UNCHANGED << table, backlog, ev, bar, evSync, evSeat, 
                                     fromSeat, closed, started, finished, 
                                     threads, log, logState, aborted, 
                                     interrupted, stack, me, waitfor, cur, 
                                     alive, b, auc, ply, msg_, j, trick, ci, 
                                     played, nc, seat, rq, msg, bn, act, 
                                     myturn, ncalls, declr, tr, i, cardk, 
                                     isdummy, fw >>

p_status(self) == /\ pc[self] = "p_status"
                  /\ toSeat[seat[self]] # <<>>
                  /\ msg' = [msg EXCEPT ![self] = Head(toSeat[seat[self]])]
                  /\ toSeat' = [toSeat EXCEPT ![seat[self]] = Tail(toSeat[seat[self]])]
                  /\ IF msg'[self].t = "NEXT"
                        THEN /\ bn' = [bn EXCEPT ![self] = bn[self] + 1]
                             /\ pc' = [pc EXCEPT ![self] = "p_board"]
                             /\ sent' = sent
                        ELSE /\ sent' = [sent EXCEPT ![self] = Append(sent[self], MEnd)]
                             /\ pc' = [pc EXCEPT ![self] = "p_end"]
                             /\ bn' = bn
                  /\ UNCHANGED << table, backlog, ev, bar, evSync, evSeat, 
                                  fromSeat, closed, started, finished, threads, 
                                  log, logState, aborted, interrupted, stack, 
                                  me, waitfor, cur, alive, b, auc, ply, msg_, 
                                  j, trick, ci, played, nc, seat, rq, act, 
                                  myturn, ncalls, declr, tr, i, cardk, isdummy, 
                                  fw >>

p_ev_set_rej(self) == /\ pc[self] = "p_ev_set_rej"
                      /\ ev' = [flag |-> TRUE, waiters |-> {}, notified |-> ev.notified \cup ev.waiters]
                      /\ pc' = [pc EXCEPT ![self] = "p_end"]
                      /\ UNCHANGED << table, backlog, bar, evSync, evSeat, 
                                      toSeat, fromSeat, sent, closed, started, 
                                      finished, threads, log, logState, 
                                      aborted, interrupted, stack, me, waitfor, 
                                      cur, alive, b, auc, ply, msg_, j, trick, 
                                      ci, played, nc, seat, rq, msg, bn, act, 
                                      myturn, ncalls, declr, tr, i, cardk, 
                                      isdummy, fw >>

p_end(self) == /\ pc[self] = "p_end"
               /\ finished' = [finished EXCEPT ![self] = TRUE]
               /\ pc' = [pc EXCEPT ![self] = "Done"]
               /\ UNCHANGED << table, backlog, ev, bar, evSync, evSeat, toSeat, 
                               fromSeat, sent, closed, started, threads, log, 
                               logState, aborted, interrupted, stack, me, 
                               waitfor, cur, alive, b, auc, ply, msg_, j, 
                               trick, ci, played, nc, seat, rq, msg, bn, act, 
                               myturn, ncalls, declr, tr, i, cardk, isdummy, 
                               fw >>

Req(self) == p_begin(self) \/ p_conn(self) \/ p_ev_set(self) \/ p_b1(self)
                \/ p_teams(self) \/ p_board(self) \/ p_hdr(self)
                \/ p_hand(self) \/ p_turn(self) \/ p_relay(self)
                \/ p_fwd(self) \/ p_po(self) \/ p_decl(self)
                \/ p_leader(self) \/ p_cardloop(self) \/ p_after(self)
                \/ p_dummy(self) \/ p_next(self) \/ p_cardrelay(self)
                \/ p_status(self) \/ p_ev_set_rej(self) \/ p_end(self)

(* Allow infinite stuttering to prevent deadlock on termination. *)
Terminating == /\ \A self \in ProcSet: pc[self] = "Done"
               /\ UNCHANGED vars

Next == Main \/ Operator
           \/ (\E self \in ProcSet: SyncSeat(self) \/ SyncMain(self))
           \/ (\E self \in Reqs: Req(self))
           \/ Terminating

Spec == /\ Init /\ [][Next]_vars
        /\ WF_vars(Main) /\ WF_vars(SyncMain(0))
        /\ \A self \in Reqs : WF_vars(Req(self)) /\ WF_vars(SyncSeat(self))

Termination == <>(\A self \in ProcSet: pc[self] = "Done")

\* END TRANSLATION 

(* ------------------------------ properties ----------------------------- *)
Threads == {0} \cup Reqs
AllDone == \A p \in Threads : pc[p] = "Done"
IsPrefixSeq(a, c) == Len(a) <= Len(c) /\ SubSeq(c, 1, Len(a)) = a

\* C09: the session runs to completion (checked without Fault / Interrupts)
Termination_ == <>AllDone
Completed == AllDone => /\ logState = "closed" /\ ~aborted /\ Len(log) = NB
                        /\ \A k \in Reqs : finished[k]
                        /\ \A s \in Seats : toSeat[s] = <<>> /\ fromSeat[s] = <<>>

\* constant-level tables (TLC evaluates them once)
ExpectedStreams == [k \in Reqs |-> ExpectedStream(k)]
BoardRecords == [k \in 1..NB |-> BoardRecord(k)]

\* C08: the log is exactly the outcome of the configured boards, in order
LogPrefix == \A k \in 1..Len(log) : log[k] = BoardRecords[k]
LogCorrect == (pc[0] = "Done" /\ ~aborted) => (logState = "closed" /\ Len(log) = NB)

\* C10: every connection is sent exactly its stream
SentPrefix == (~aborted) => \A k \in Reqs : IsPrefixSeq(sent[k], ExpectedStreams[k])
SentComplete == (AllDone /\ ~aborted) => \A k \in Reqs : sent[k] = ExpectedStreams[k]

\* C09 / C10 / C11: when Server.run returns (normally) no player thread is
\* left behind - the command line ends the process there, and a thread still
\* alive would be killed before it has told its seat everything
RunReturnsAfterThreads ==
  (pc[0] = "Done" /\ ~aborted) => \A k \in Reqs : started[k] => finished[k]

\* C08 / C09: a seat is told "End of session" only when the log is complete
\* and closed (somebody who reads the log at that moment reads all of it)
DeclaredOverImpliesLogClosed ==
  \A k \in Reqs : (Len(sent[k]) > 0 /\ sent[k][Len(sent[k])] = MEnd) => logState = "closed"

\* C13: once main has stopped on an abort the log is closed and holds exactly
\* the boards finished before
AbortLog == aborted => (logState = "closed" /\ LogPrefix /\ Len(log) = b - 1)

\* growth: a malformed ready-line is not recovered from - the session hangs
\* with the log left open (documented behaviour of the code, not a property
\* of the list; extra check X02)
ReadyFault == Fault.phase \in {"ready-deal", "ready-cards"}
ReadyFaultHangs == ReadyFault => (pc[0] # "Done" /\ logState # "closed" /\ ~aborted)
ReadyFaultOneError ==
  ReadyFault => \A k \in Reqs : closed[k] =>
     (Requests[k].seat = Fault.index /\ sent[k][Len(sent[k])] = MErr("unexpected"))

\* C20: admission
TableOnlyGrows == [][\A s \in Seats : table[s] # Free => table'[s] = table[s]]_vars
RejectedGetOneError ==
  \A k \in Reqs : (pc[k] = "Done" /\ Processed(k) /\ VerdictK(k) # "ok")
                    => (sent[k] = <<MErr(VerdictK(k))>> /\ closed[k])
SeatedAsSpecified ==
  AllDone => \A s \in Seats : table[s] = TableAfterK(NReq)[s]
PartnersShareTeam == (\A s \in Seats : table[s] # Free) => table[0] = table[2] /\ table[1] = table[3]
BarrierShape == bar.count \in 0..Parties /\ bar.state \in {0, 1}
=============================================================================
