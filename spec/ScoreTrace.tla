----------------------------- MODULE ScoreTrace -----------------------------
(***************************************************************************)
(* Validates calls of the real scoring functions (C07, C16).               *)
(* events (each its own trace; res is the returned integer, or raises)     *)
(*   score    : bid (0..34, 38 = passed out), x, xx, vul (board), decl     *)
(*              (4 = none), tricks        calc_score(Contract(...), tricks)*)
(*   bidscore : bid, x, xx, vulflag, tricks         calc_bid_score(...)    *)
(*   imp      : d                          point_difference_to_imps(d)     *)
(*   impbig   : sign (1 | -1)   |d| beyond 32 bits; result must be 24*sign *)
(*   imp2     : a, b                                score_to_imp(a, b)     *)
(***************************************************************************)
EXTENDS TraceBase, Bridge, Integers, ImpScale

VARIABLES bid, dbl, bvul, decl, tricks
S == INSTANCE Score

VARIABLES i, nrej
tvars == <<bid, dbl, bvul, decl, tricks, i, nrej>>

TInit == /\ i = 1 /\ nrej = 0
         /\ bid = 0 /\ dbl = 0 /\ bvul = 0 /\ decl = 0 /\ tricks = 0

Expected(e) ==
  IF e.ev = "score" THEN S!ContractScore(e.bid, e.x, e.xx, e.vul, e.decl, e.tricks)
  ELSE IF e.ev = "bidscore"
       THEN S!Duplicate(Level(e.bid), Strain(e.bid), S!DblStatus(e.x, e.xx),
                        e.vulflag, e.tricks)
  ELSE IF e.ev = "imp" THEN Imps(e.d)
  ELSE IF e.ev = "impbig" THEN 24 * e.sign
  ELSE Imps(e.a + e.b)

Consume ==
  /\ i <= NTrace
  /\ i' = i + 1
  /\ UNCHANGED <<bid, dbl, bvul, decl, tricks>>
  /\ LET e == Trace[i]
         ok == e.raised = FALSE /\ e.res = Expected(e)
     IN IF ok THEN nrej' = nrej
        ELSE /\ Reject(e.tid, i, e.ev \o ":fail=" \o
                         (IF e.raised THEN "raised" ELSE "value"))
             /\ nrej' = nrej + 1

Done ==
  /\ i = NTrace + 1
  /\ Finish(NTrace, nrej)
  /\ i' = i + 1
  /\ UNCHANGED <<bid, dbl, bvul, decl, tricks, nrej>>

TNext == Consume \/ Done
TSpec == TInit /\ [][TNext]_tvars
=============================================================================
