---------------------------- MODULE JsonLogTrace ----------------------------
(***************************************************************************)
(* Validates sessions of the real JsonLogWriter / JsonBoardSettingWriter   *)
(* (through an IO object that records every write(chunk)) and what the     *)
(* real JsonParser reads back, against JsonLog.tla (C12, C17 JSON half).   *)
(* One trace (tid) is one writer session:                                  *)
(*   begin : kind ("logs" | "board_settings")                              *)
(*   call  : op ("open" | "write" | "write_fail" | "close"), rec (write)   *)
(*   chunk : text (frame chunks)  |  item + paths + keys_ok (record chunk, *)
(*           parsed and normalised by the harness; nullable fields         *)
(*           wrapped as [null |-> TRUE] / [v |-> x])                       *)
(*   doc   : json_ok, schema_ok (jsonschema on the shipped file), nitems   *)
(*   read  : recs (projection of parse_board_logs), types_ok               *)
(*   read_settings : recs (projection of parse_board_settings)             *)
(***************************************************************************)
EXTENDS TraceBase, Bridge, Integers

VARIABLES w, nwrites
J == INSTANCE JsonLog

VARIABLES i, skip, nrej, ws, pending, written, kind
tvars == <<w, nwrites, i, skip, nrej, ws, pending, written, kind>>

SetOf(q) == SeqRange(q)
DealSets(q) == [s \in 1..4 |-> SetOf(q[s])]
Prep(r) == [r EXCEPT !.deal = DealSets(r.deal)]     \* lists -> sets

ExpectItem(r) == IF kind = "logs" THEN J!LogItem(Prep(r)) ELSE J!SettingItem(Prep(r))

NormContract(c) ==
  [bid |-> IF J!PassedOutBid(c.bid) THEN NoCall ELSE c.bid,
   dbl |-> J!DblOf(c.x, c.xx), vul |-> c.vul,
   decl |-> IF J!PassedOutBid(c.bid) THEN NoSeat ELSE c.decl]
\* field-by-field comparison of a read log record with the written one
ReadLogClauses(rd, wr) ==
  << <<"board_id", rd.id = wr.id>>, <<"players", rd.names = wr.names>>,
     <<"dealer", rd.dealer = wr.dealer>>,
     <<"deal", DealSets(rd.deal) = DealSets(wr.deal)>>,
     <<"vulnerability", rd.vul = wr.contract.vul>>,
     <<"auction", rd.bids = wr.bids>>,
     <<"contract", NormContract(rd.contract) = NormContract(wr.contract)>>,
     <<"declarer", rd.decl = NormContract(wr.contract).decl>>,
     <<"play", rd.play = wr.play>>, <<"tricks", rd.taken = wr.taken>>,
     <<"score_type", rd.scoring = wr.scoring>>, <<"scores", rd.scores = wr.scores>>,
     <<"dda", rd.dda = wr.dda>>, <<"value-objects", rd.types_ok>> >>
ReadSettingClauses(rd, wr) ==
  << <<"board_id", rd.id = wr.id>>, <<"dealer", rd.dealer = wr.dealer>>,
     <<"deal", DealSets(rd.deal) = DealSets(wr.deal)>>,
     <<"vulnerability", rd.vul = (IF kind = "logs" THEN wr.contract.vul ELSE wr.vul)>>,
     <<"dda", rd.dda = wr.dda>>, <<"value-objects", rd.types_ok>> >>

RECURSIVE AllRecs(_, _, _, _)
AllRecs(C(_, _), rds, wrs, k) ==
  IF k > Len(wrs) THEN ""
  ELSE LET c == AllFails(C(rds[k], wrs[k]))
       IN IF c # "" THEN "record" \o ToString(k) \o "(" \o c \o ")"
          ELSE AllRecs(C, rds, wrs, k + 1)

TInit == /\ i = 1 /\ skip = FALSE /\ nrej = 0 /\ w = 0 /\ nwrites = 0
         /\ ws = J!InitW /\ pending = <<>> /\ written = <<>> /\ kind = "logs"

Bad(e, clause) == /\ Reject(e.tid, i, clause) /\ skip' = TRUE /\ nrej' = nrej + 1
                  /\ UNCHANGED <<ws, pending, written, kind>>
Good(ws2, pend2, wr2) == /\ skip' = FALSE /\ nrej' = nrej /\ ws' = ws2
                         /\ pending' = pend2 /\ written' = wr2 /\ UNCHANGED kind

Consume ==
  /\ i <= NTrace
  /\ i' = i + 1
  /\ UNCHANGED <<w, nwrites>>
  /\ LET e == Trace[i] IN
     IF e.ev = "begin" THEN
        /\ skip' = FALSE /\ nrej' = nrej /\ ws' = J!InitW /\ pending' = <<>>
        /\ written' = <<>> /\ kind' = e.kind
     ELSE IF skip THEN UNCHANGED <<skip, nrej, ws, pending, written, kind>>
     ELSE IF e.ev = "call" THEN
        IF pending # <<>> THEN Bad(e, "call:" \o e.op \o ":fail=previous-call-chunks-missing")
        ELSE IF e.op = "open" THEN
           Good(J!OpenW(ws), << [text |-> J!OpenText(kind)] >>, written)
        ELSE IF e.op = "write" THEN
           IF e.raised # (~ws.open) THEN Bad(e, "call:write:fail=raised")
           ELSE IF ~ws.open THEN Good(ws, <<>>, written)
           ELSE Good(J!WriteW(ws),
                     (IF ws.first THEN <<>> ELSE << [text |-> J!SepText] >>)
                        \o << [item |-> ExpectItem(e.rec)] >>,
                     Append(written, e.rec))
        ELSE IF e.op = "write_fail" THEN    \* a write that raised: no chunk may follow
           IF ~e.raised THEN Bad(e, "call:write_fail:fail=did-not-raise")
           ELSE Good(ws, <<>>, written)
        ELSE \* close
           Good(J!CloseW(ws),
                << [text |-> IF ws.first THEN J!CloseEmpty ELSE J!CloseText] >>, written)
     ELSE IF e.ev = "chunk" THEN
        IF pending = <<>> THEN Bad(e, "chunk:fail=unexpected-chunk")
        ELSE LET h == Head(pending) IN
             IF "text" \in DOMAIN h THEN
                IF "text" \in DOMAIN e /\ e.text = h.text
                THEN Good(ws, Tail(pending), written)
                ELSE Bad(e, "chunk:fail=frame-text")
             ELSE IF "item" \notin DOMAIN e THEN Bad(e, "chunk:fail=item-not-json")
             ELSE LET c == AllFails(
                         << <<"keys", e.keys_ok>> >> \o
                         [k \in 1..Len(e.fields) |->
                            <<e.fields[k], e.item[e.fields[k]] = h.item[e.fields[k]]>>]
                         \o << <<"SCHEMA-DRIFT",
                                 J!SchemaOK({<<p[1], p[2]>> : p \in SetOf(e.paths)},
                                            IF kind = "logs" THEN J!LogPaths ELSE J!SettingPaths,
                                            IF kind = "logs" THEN J!LogRequired
                                            ELSE J!SettingRequired) = e.item_schema_ok>> >>)
                  IN IF c = "" THEN Good(ws, Tail(pending), written)
                     ELSE Bad(e, "chunk:fail=item(" \o c \o ")")
     ELSE IF e.ev = "doc" THEN
        LET c == AllFails(<< <<"chunks-complete", pending = <<>> >>,
                             <<"well-formed", J!WellFormedDoc(ws.out)>>,
                             <<"json", e.json_ok>>,
                             <<"count", e.nitems = Len(written)>>,
                             <<"schema", e.schema_ok>> >>)
        IN IF c = "" THEN Good(ws, pending, written) ELSE Bad(e, "doc:fail=" \o c)
     ELSE IF e.ev = "read" THEN
        LET c == IF e.raised THEN "raised"
                 ELSE IF Len(e.recs) # Len(written) THEN "count"
                 ELSE AllRecs(ReadLogClauses, e.recs, written, 1)
        IN IF c = "" THEN Good(ws, pending, written) ELSE Bad(e, "read:fail=" \o c)
     ELSE IF e.ev = "read_settings" THEN
        LET c == IF e.raised THEN "raised"
                 ELSE IF Len(e.recs) # Len(written) THEN "count"
                 ELSE AllRecs(ReadSettingClauses, e.recs, written, 1)
        IN IF c = "" THEN Good(ws, pending, written) ELSE Bad(e, "read_settings:fail=" \o c)
     ELSE Bad(e, "unknown-event")

Done ==
  /\ i = NTrace + 1
  /\ Finish(NTrace, nrej)
  /\ i' = i + 1
  /\ UNCHANGED <<w, nwrites, skip, nrej, ws, pending, written, kind>>

TNext == Consume \/ Done
TSpec == TInit /\ [][TNext]_tvars
=============================================================================
