----------------------------- MODULE BarrierInd -----------------------------
(***************************************************************************)
(* The reusable barrier of PyThreading.tla for N = 5 parties and ANY       *)
(* number of generations, with an inductive invariant checked by Apalache  *)
(* (Init => IndInv;  IndInv /\ Next => IndInv').  Same transitions as      *)
(* PyThreading!Enter / Wait / Leave without the bound G.                   *)
(***************************************************************************)
EXTENDS Integers, FiniteSets

N == 5
Threads == 1..N

VARIABLES
  \* @type: Int;
  count,
  \* @type: Int;
  state,
  \* @type: Int -> Str;
  pcs,
  \* @type: Int -> Int;
  gen

Init == /\ count = 0 /\ state = 0
        /\ pcs = [t \in Threads |-> "enter"]
        /\ gen = [t \in Threads |-> 0]

Enter(t) == /\ pcs[t] = "enter" /\ state = 0
            /\ count' = count + 1
            /\ state' = IF count + 1 = N THEN 1 ELSE state
            /\ pcs' = [pcs EXCEPT ![t] = IF count + 1 = N THEN "leave" ELSE "wait"]
            /\ UNCHANGED gen
Wait(t) == /\ pcs[t] = "wait" /\ state = 1
           /\ pcs' = [pcs EXCEPT ![t] = "leave"]
           /\ UNCHANGED <<count, state, gen>>
Leave(t) == /\ pcs[t] = "leave"
            /\ count' = count - 1
            /\ state' = IF count = 1 THEN 0 ELSE state
            /\ gen' = [gen EXCEPT ![t] = @ + 1]
            /\ pcs' = [pcs EXCEPT ![t] = "enter"]
Next == \E t \in Threads : Enter(t) \/ Wait(t) \/ Leave(t)

Inside == {t \in Threads : pcs[t] \in {"wait", "leave"}}
\* the generation being crossed: the smallest count of completed crossings
MinGen == CHOOSE g \in {gen[t] : t \in Threads} : \A t \in Threads : g <= gen[t]

IndInv ==
  /\ count \in 0..N /\ state \in {0, 1}
  /\ \A t \in Threads : pcs[t] \in {"enter", "wait", "leave"} /\ gen[t] >= 0
  /\ count = Cardinality(Inside)
  /\ (\E t \in Threads : pcs[t] = "leave") => state = 1
  \* filling: nobody inside has been released, everybody is in the same generation
  /\ state = 0 => /\ \A t \in Threads : pcs[t] # "leave"
                  /\ \A a, b \in Threads : gen[a] = gen[b]
                  /\ count < N
  \* draining: those still inside are one generation behind those who left
  /\ state = 1 => /\ count >= 1
                  /\ \A a, b \in Inside : gen[a] = gen[b]
                  /\ \A a \in Inside, b \in Threads \ Inside : gen[b] = gen[a] + 1
                  /\ \A a, b \in Threads \ Inside : gen[a] = gen[b]

IndInit == /\ count \in 0..N /\ state \in {0, 1}
           /\ pcs \in [Threads -> {"enter", "wait", "leave"}]
           /\ gen \in [Threads -> Nat]
           /\ IndInv

\* what C09 needs from the primitive
BarrierSafety == \A a, b \in Threads : gen[a] <= gen[b] + 1
\* some thread can always move (written out: Apalache has no ENABLED)
NoStuck == \E t \in Threads : \/ (pcs[t] = "enter" /\ state = 0)
                               \/ (pcs[t] = "wait" /\ state = 1)
                               \/ pcs[t] = "leave"
=============================================================================
