--------------------------- MODULE NotationTrace ---------------------------
(***************************************************************************)
(* Validates calls of the real converters, deal encoders/decoders and      *)
(* protocol message builders/parsers against Notation.tla (C14, C15, C19   *)
(* message part).  Every event is its own trace:  fn names the converter,  *)
(* the other fields are its arguments and results (integers in the         *)
(* encoding of Bridge.tla, texts as strings), raised says whether the call *)
(* raised.  Decoders are checked relationally (text = Encode(result)).     *)
(***************************************************************************)
EXTENDS TraceBase, Bridge, Integers, Notation

VARIABLES i, nrej
tvars == <<i, nrej>>

SetOf(q) == SeqRange(q)
DealOf(q) == [s \in Seats |-> SetOf(q[s + 1])]
IsAsc(q) == \A k \in 1..(Len(q) - 1) : q[k] < q[k + 1]
DblOf(x, xx) == IF xx THEN 2 ELSE IF x THEN 1 ELSE 0
PassedOut(b) == b = NoCall \/ b = PASS
OptLevel(b) == IF PassedOut(b) THEN 0 ELSE Level(b)
OptStrain(b) == IF PassedOut(b) THEN 5 ELSE Strain(b)

Clauses(e) ==
  CASE e.fn = "card.props" ->          \* Card(rank, suit): int(), str()
         << <<"int", e.int = MkCard(e.rank, e.suit)>>,
            <<"str", e.str = CardStr(MkCard(e.rank, e.suit))>>,
            <<"rs", e.rs = CardStrRS(MkCard(e.rank, e.suit))>> >>
    [] e.fn = "card.from_int" ->
         << <<"rank", e.rank = CardRank(e.a)>>, <<"suit", e.suit = CardSuit(e.a)>>,
            <<"domain", e.a \in 0..51>> >>
    [] e.fn = "card.from_str" ->
         << <<"text", e.text = CardStr(e.out)>> >>
    [] e.fn = "card.rank_str" ->
         << <<"str", e.out = RankStr[e.rank - 1]>>,
            <<"back", e.back = e.rank>> >>
    [] e.fn = "card.cmp" ->
         << <<"lt", e.lt = (e.a < e.b)>>, <<"le", e.le = (e.a <= e.b)>>,
            <<"gt", e.gt = (e.a > e.b)>>, <<"ge", e.ge = (e.a >= e.b)>>,
            <<"eq", e.eq = (e.a = e.b)>>, <<"hash", e.eq => e.hasheq>> >>
    [] e.fn = "bid.props" ->             \* Bid(a + 1)
         << <<"idx", e.idx = e.a>>, <<"str", e.str = CallStr(e.a)>>,
            <<"name", e.name = CallName(e.a)>>,
            <<"level", e.level = IF IsBid(e.a) THEN Level(e.a) ELSE 0>>,
            <<"suit", e.suit = IF IsBid(e.a) THEN Strain(e.a) ELSE 5>> >>
    [] e.fn = "bid.from_int" -> << <<"value", e.out = e.a>>, <<"domain", e.a \in 0..37>> >>
    [] e.fn = "bid.from_level_suit" -> << <<"value", e.out = MkBid(e.level, e.suit)>>,
                                          <<"domain", e.level \in 1..7 /\ e.suit \in 0..4>> >>
    [] e.fn = "bid.from_str" -> << <<"text", e.text = CallStr(e.out)>> >>
    [] e.fn = "seat.props" ->
         << <<"str", e.str = SeatShort[e.a + 1]>>,
            <<"formal", e.formal = SeatFormal[e.a + 1]>>,
            <<"left", e.left = Left(e.a) /\ e.next = Left(e.a)>>,
            <<"right", e.right = Right(e.a)>>,
            <<"partner", e.partner = Partner(e.a)>>,
            <<"pair", e.pair = Side(e.a) /\ e.opp = OtherSide(Side(e.a))>>,
            <<"from_formal", e.from_formal = e.a>>,
            <<"from_name", e.from_name = e.a>> >>
    [] e.fn = "seat.rel" ->
         << <<"is_partner", e.is_partner = SameSide(e.a, e.b)>> >>
    [] e.fn = "seat.is_vul" ->
         << <<"is_vul", e.out = SideVul(e.vul, Side(e.a))>>,
            <<"pair_is_vul", e.pair_out = SideVul(e.vul, Side(e.a))>> >>
    [] e.fn = "pair.props" ->
         << <<"str", e.str = PairStr[e.a + 1]>>, <<"opp", e.opp = OtherSide(e.a)>> >>
    [] e.fn = "vul.props" ->
         << <<"str", e.str = VulStr[e.a + 1]>>, <<"pbn", e.pbn = VulPbn[e.a + 1]>>,
            <<"proto", e.proto = VulProto[e.a + 1]>> >>
    [] e.fn = "vul.from_str" -> << <<"text", e.text \in VulSpellings(e.out)>> >>
    [] e.fn = "suit.props" ->
         << <<"str", e.str = SuitStr[e.a + 1]>>,
            <<"minor", e.minor = (e.a \in {0, 1})>>,
            <<"major", e.major = (e.a \in {2, 3})>> >>
    [] e.fn = "contract.props" ->
         << <<"str", e.str = ContractStr(IF PassedOut(e.bid) THEN NoCall ELSE e.bid,
                                         DblOf(e.x, e.xx))>>,
            <<"level", e.level = OptLevel(e.bid)>>,
            <<"trump", e.trump = OptStrain(e.bid)>>,
            <<"passed_out", e.passed_out = PassedOut(e.bid)>>,
            <<"necessary", e.necessary = IF PassedOut(e.bid) THEN 0 ELSE Level(e.bid) + 6>>,
            <<"is_vul", IF e.decl = NoSeat /\ e.vul \in {VulNS, VulEW}
                        THEN e.is_vul = "raises"
                        ELSE e.is_vul = (IF e.vul = VulBoth THEN "true"
                                         ELSE IF e.vul = VulNone THEN "false"
                                         ELSE IF SideVul(e.vul, Side(e.decl)) THEN "true"
                                         ELSE "false")>> >>
    [] e.fn = "contract.from_str" ->     \* str_to_contract(text, vul, decl)
         << <<"text", e.text = ContractStr(IF PassedOut(e.out_bid) THEN NoCall ELSE e.out_bid,
                                           DblOf(e.out_x, e.out_xx))>>,
            <<"vul", e.out_vul = e.vul>>, <<"decl", e.out_decl = e.decl>>,
            <<"status", e.out_xx => e.out_x>> >>
    \* ----------------------------- C14 ---------------------------------
    [] e.fn = "deal.to_pbn" -> << <<"text", e.out = PbnDeal(DealOf(e.deal), e.first)>> >>
    [] e.fn = "deal.from_pbn" ->
         << <<"text", e.text = PbnDeal(DealOf(e.out), e.first)>> >>
    [] e.fn = "deal.to_binary" ->
         << <<"vectors", \A s \in Seats : e.out[s + 1] = BinVector(SetOf(e.deal[s + 1]))>>,
            <<"type", e.type_ok>> >>
    [] e.fn = "deal.from_binary" ->
         << <<"vectors", \A s \in Seats : e.vecs[s + 1] = BinVector(SetOf(e.out[s + 1]))>> >>
    [] e.fn = "deal.to_json" ->
         << <<"lists", \A s \in Seats : e.out[s + 1] = JsonHand(SetOf(e.deal[s + 1]))>> >>
    [] e.fn = "deal.from_json" ->
         << <<"lists", \A s \in Seats : SetOf(e.lists[s + 1]) = SetOf(JsonHand(SetOf(e.out[s + 1])))
                                       /\ Len(e.lists[s + 1]) = Cardinality(SetOf(e.out[s + 1]))>> >>
    [] e.fn = "deal.random" -> << <<"full-deal", IsFullDeal(DealOf(e.out))>> >>
    [] e.fn = "deal.mutate" ->          \* decoded object mutated in place
         << <<"independent",
              \A s \in Seats : SetOf(e.after[s + 1]) =
                 IF s = e.seat THEN (SetOf(e.before[s + 1]) \ SetOf(e.removed)) \cup SetOf(e.added)
                 ELSE SetOf(e.before[s + 1])>> >>
    [] e.fn = "deal.eq" -> << <<"eq", e.out = (DealOf(e.a) = DealOf(e.b))>> >>
    \* ----------------------------- C19 ---------------------------------
    [] e.fn = "msg.hand" -> << <<"text", e.out = HandText(SetOf(e.hand))>> >>
    [] e.fn = "msg.parse_hand" ->        \* Client.parse_hand(text (+ variant))
         << <<"base", e.base = HandText(SetOf(e.out))>>,
            <<"vector", e.vec = BinVector(SetOf(e.out))>> >>
    [] e.fn = "msg.parse_cards" ->
         << <<"base", e.base = CardsMsg(e.owner, SetOf(e.hand))>>,
            <<"text", e.out = HandText(SetOf(e.hand))>> >>
    [] e.fn = "msg.bid" -> << <<"text", e.out = CallMsg(e.seat, e.call)>> >>
    [] e.fn = "msg.parse_bid" ->
         << <<"base", e.base = CallMsg(e.seat, e.call)>>, <<"value", e.out = e.call>> >>
    [] e.fn = "msg.card" -> << <<"text", e.out = CardStrRS(e.card)>> >>
    [] e.fn = "msg.parse_card" ->
         << <<"base", e.base = IF e.notation = "rs" THEN CardMsg(e.seat, e.card)
                                ELSE CardMsgSR(e.seat, e.card)>>,
            <<"value", e.out = e.card>> >>
    [] e.fn = "msg.deal" ->              \* what Server.deal queues for one seat
         << <<"header", e.header = BoardMsg(e.n, e.dealer, e.vul)>>,
            <<"cards", e.cards = CardsMsg(SeatFormal[e.seat + 1], SetOf(e.hand))>> >>
    [] e.fn = "msg.parse_board" ->
         << <<"base", e.base = BoardMsg(e.n, e.dealer, e.vul)>>,
            <<"value", e.out_n = e.n /\ e.out_dealer = e.dealer /\ e.out_vul = e.vul>> >>
    [] e.fn = "msg.parse_teams" ->
         << <<"base", e.base = TeamsMsg(e.ns, e.ew)>>,
            <<"value", e.out_ns = e.ns /\ e.out_ew = e.ew>> >>
    [] e.fn = "msg.handshake" ->
         \* the bundled client's side of the admission: given the two lines the
         \* table manager sends (seated, teams) it goes through and says the
         \* three lines of the protocol, whatever the team names contain
         << <<"sent", e.sent = << ConnectMsg(e.team, e.seat, 18),
                                   SeatFormal[e.seat + 1] \o " ready for teams",
                                   SeatFormal[e.seat + 1] \o " ready to start" >> >>,
            <<"opponents", e.opp = e.other>> >>
    [] e.fn = "msg.parse_connect" ->
         << <<"base", e.base = ConnectMsg(e.team, e.seat, e.version)>>,
            <<"value", e.out_team = e.team /\ e.out_seat = e.seat
                       /\ e.out_version = e.version>> >>
    [] e.fn = "msg.parse_leader" ->
         << <<"value", e.out = e.seat>>,
            <<"base", e.base = IF e.as_dummy THEN "Dummy to lead" ELSE LeadMsg(e.seat)>> >>
    [] OTHER -> << <<"unknown-fn", FALSE>> >>

TInit == i = 1 /\ nrej = 0

Consume ==
  /\ i <= NTrace
  /\ i' = i + 1
  /\ LET e == Trace[i]
         \* a probe is something that is nobody's notation: it may be refused; if it
         \* is accepted the result must have it as a notation all the same
         c == IF e.raised THEN (IF "probe" \in DOMAIN e /\ e.probe THEN "" ELSE "raised")
              ELSE AllFails(Clauses(e))
     IN IF c = "" THEN nrej' = nrej
        ELSE /\ Reject(e.tid, i, e.fn \o ":fail=" \o c)
             /\ nrej' = nrej + 1

Done ==
  /\ i = NTrace + 1
  /\ Finish(NTrace, nrej)
  /\ i' = i + 1
  /\ UNCHANGED nrej

TNext == Consume \/ Done
TSpec == TInit /\ [][TNext]_tvars
=============================================================================
