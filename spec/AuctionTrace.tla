---------------------------- MODULE AuctionTrace ----------------------------
(***************************************************************************)
(* Validates traces recorded from the real BiddingPhase against            *)
(* Auction!Step (C01, C02, C03).                                           *)
(*                                                                         *)
(* events                                                                  *)
(*   new  : dealer, vul                          -> fresh object           *)
(*   take : call                                 -> take_bid on the object *)
(*   fork : call      -> take_bid on a deep copy; the object is untouched  *)
(* every event logs res and the projected state AFTER the call of the      *)
(* object the call was made on:                                            *)
(*   active (4 = None), avail (sorted indices of the 1-slots), slots_ok    *)
(*   (vector has 38 slots, all 0 or 1), hist, perseat (4 lists), done,     *)
(*   contract ({bid,x,xx,vul,decl} or {none:true})                         *)
(***************************************************************************)
EXTENDS TraceBase, Bridge, AuctionLaw

OfferBids == {}
Dealers == {}
VulSet == {}
VARIABLES st, res
A == INSTANCE Auction

VARIABLES i, skip, nrej, seen
tvars == <<st, res, i, skip, nrej, seen>>

Null == [none |-> TRUE]

\* an event whose call was refused may log  same |-> TRUE  instead of the
\* state: the harness compared the full projection before and after the call
IsSame(e) == "same" \in DOMAIN e /\ e.same
\* a call taken without looking at the object afterwards: only the result is
\* known (the state is shown by a later event of the trace)
IsBlind(e) == "blind" \in DOMAIN e /\ e.blind

Observed(e, s) ==      \* clauses comparing the logged state with model state s
  << <<"active", e.active = s.active>>,
     <<"avail-vector-shape", e.slots_ok>>,
     <<"avail", SeqRange(e.avail) = s.avail>>,
     <<"hist", e.hist = s.hist>>,
     <<"perseat", \A p \in Seats : e.perseat[p + 1] = s.perSeat[p]>>,
     <<"done", e.done = A!Done(s)>>,
     <<"contract", e.contract = A!Contract(s)>> >>

\* the model agrees with the law on this very state (internal consistency
\* of the specification at full size; a failure is a machinery error)
LawOK(s) ==
  /\ (~A!Done(s)) => s.avail = LawLegal(s.dealer, s.hist)
  /\ s.active = IF LawEnded(s.hist) THEN NoSeat ELSE LawNextSeat(s.dealer, s.hist)
  /\ A!Contract(s) = LawContract(s.dealer, s.vul, s.hist)
  /\ \A p \in Seats : s.perSeat[p] = LawShare(s.dealer, s.hist, p)

\* names of the failing clauses of a sequence of <<name, bool>> pairs
FailSet(checks) == {checks[k][1] : k \in {j \in 1..Len(checks) : ~checks[j][2]}}

TInit == /\ i = 1 /\ skip = FALSE /\ nrej = 0 /\ st = Null /\ res = "none"
         /\ seen = {}

Consume ==
  /\ i <= NTrace
  /\ i' = i + 1
  /\ LET e == Trace[i] IN
     IF e.ev = "new" THEN
        LET s0 == A!InitAuction(e.dealer, e.vul)
            c  == AllFails(Observed(e, s0))
        IN /\ res' = "new" /\ seen' = {}
           /\ IF c = "" THEN st' = s0 /\ skip' = FALSE /\ nrej' = nrej
              ELSE /\ Reject(e.tid, i, "new:" \o c)
                   /\ st' = s0 /\ skip' = TRUE /\ nrej' = nrej + 1
     ELSE IF skip THEN UNCHANGED <<st, res, skip, nrej, seen>>
     ELSE
        LET r == A!Step(st, e.call)
            checks == << <<"result", e.res = r.res>> >>
                          \o (IF IsBlind(e) THEN <<>>
                              ELSE IF IsSame(e)
                              THEN << <<"unchanged", r.st = st>> >>
                              ELSE Observed(e, r.st))
                          \o (IF IsSame(e) \/ IsBlind(e) THEN <<>>
                              ELSE << <<"MODEL-LAW", LawOK(r.st)>> >>)
            c == AllFails(checks)
            fs == FailSet(checks)
        IN /\ res' = r.res
           /\ IF c = ""
              THEN /\ st' = IF e.ev = "fork" THEN st ELSE r.st
                   /\ skip' = FALSE /\ nrej' = nrej /\ seen' = seen
              ELSE IF e.res = r.res \/ ({e.res, r.res} = {"ongoing", "finished"})
              \* (also when the call was accepted by both but they disagree on
              \* whether it ended the auction: what is accepted or refused next
              \* is then judged against the specification's state)
              \* the call was accepted / refused as specified but the state
              \* shown differs: report the clauses not yet reported for this
              \* trace and go on with the specification's state, so that later
              \* consequences (e.g. the final contract) are judged as well
              THEN /\ IF fs \subseteq seen THEN nrej' = nrej
                      ELSE /\ Reject(e.tid, i, e.ev \o ":exp=" \o r.res \o ":got="
                                                \o e.res \o ":fail=" \o c)
                           /\ nrej' = nrej + 1
                   /\ seen' = seen \cup fs
                   /\ st' = IF e.ev = "fork" THEN st ELSE r.st
                   /\ skip' = FALSE
              ELSE /\ Reject(e.tid, i, e.ev \o ":exp=" \o r.res \o ":got="
                                         \o e.res \o ":fail=" \o c)
                   /\ st' = st /\ skip' = TRUE /\ nrej' = nrej + 1
                   /\ seen' = seen

Done ==
  /\ i = NTrace + 1
  /\ Finish(NTrace, nrej)
  /\ i' = i + 1
  /\ UNCHANGED <<st, res, skip, nrej, seen>>

TNext == Consume \/ Done
TSpec == TInit /\ [][TNext]_tvars
=============================================================================
