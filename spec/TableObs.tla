------------------------------ MODULE TableObs ------------------------------
(***************************************************************************)
(* The OBSERVABLE meaning of a session of the table manager                *)
(* (network_bridge/server.py) with four protocol-conforming seats, as pure *)
(* functions of the configuration (boards, team names) and of the seats'   *)
(* decisions (calls and cards, with the exact text each seat put on the    *)
(* wire):                                                                  *)
(*   ServerStream(s)  the lines the server must send to seat s, in order   *)
(*   ClientStream(s)  the lines a conforming client in seat s sends        *)
(*   LogItems         the records of the JSON log                          *)
(*   Outcome(b)       contract / declarer / tricks / score of board b      *)
(* built from Auction!Step, Play!PStep, Score!ContractScore and the texts  *)
(* of Notation.tla.  Table.tla (the concurrent model) is checked by TLC to *)
(* produce exactly these streams and records under every interleaving;     *)
(* TableTrace.tla checks that real executions do.  C08, C10, C11 (network),*)
(* C13, C20.                                                               *)
(***************************************************************************)
EXTENDS Bridge, Integers, Notation

OfferBids == {}
Dealers == {}
VulSet == {}
Deals == {}
Trumps == {}
Decls == {}
Revokes == TRUE
VARIABLES st, res, m, obs, deal, ores, bid, dbl, bvul, decl, tricks, w, nwrites
A == INSTANCE Auction
P == INSTANCE Play
S == INSTANCE Score
J == INSTANCE JsonLog
obsvars == <<st, res, m, obs, deal, ores, bid, dbl, bvul, decl, tricks, w, nwrites>>

SetOf(q) == {q[k] : k \in 1..Len(q)}
DealOf(q) == [s \in Seats |-> SetOf(q[s + 1])]
None == [none |-> TRUE]

(* ----------------------- outcome of one board -------------------------- *)
\* board: [deal (4 lists), dealer, vul, id, dda]; calls: seq of [seat, call,
\* sent, relay]; cards: seq of [seat, card, sent]
RECURSIVE AuctionAfter(_, _, _)
AuctionAfter(s0, calls, k) ==
  IF k = 0 THEN s0 ELSE A!Step(AuctionAfter(s0, calls, k - 1), calls[k].call).st
FinalAuction(b, calls) == AuctionAfter(A!InitAuction(b.dealer, b.vul), calls, Len(calls))
ContractOf(b, calls) == A!Contract(FinalAuction(b, calls))
PassedOutC(c) == c.bid = NoCall

RECURSIVE PlayAfter(_, _, _)
PlayAfter(p0, cards, k) ==
  IF k = 0 THEN p0
  ELSE LET p == PlayAfter(p0, cards, k - 1)
       IN P!PStep(p, cards[k].seat, cards[k].card).st
InitPlayOf(b, c) == P!InitPlay("hands", NoSeat, DealOf(b.deal), Strain(c.bid), c.decl)
FinalPlay(b, c, cards) == PlayAfter(InitPlayOf(b, c), cards, Len(cards))

Outcome(b, calls, cards) ==
  LET c == ContractOf(b, calls) IN
  IF PassedOutC(c)
  THEN [contract |-> c, play |-> None, taken |-> None, scores |-> <<0, 0>>]
  ELSE LET fp == FinalPlay(b, c, cards)
           t  == fp.taken[Side(c.decl)]
           sc == S!ContractScore(c.bid, c.x, c.xx, c.vul, c.decl, t)
       IN [contract |-> c,
           play |-> [v |-> fp.hist],
           taken |-> [v |-> t],
           scores |-> IF Side(c.decl) = 0 THEN <<sc, -sc>> ELSE <<-sc, sc>>]

\* the log record of board b in the shape JsonLog!LogItem expects
LogRecord(b, calls, cards, teams) ==
  LET o == Outcome(b, calls, cards) IN
  [id |-> b.id,
   names |-> <<teams[1], teams[2], teams[1], teams[2]>>,      \* N, E, S, W
   dealer |-> b.dealer, deal |-> [s \in 1..4 |-> SetOf(b.deal[s])],
   bids |-> [k \in 1..Len(calls) |-> calls[k].call],
   contract |-> o.contract, play |-> o.play, taken |-> o.taken,
   scoring |-> "IMP", scores |-> o.scores, dda |-> b.dda]
LogItem(b, calls, cards, teams) == J!LogItem(LogRecord(b, calls, cards, teams))

(* --------------------------- the two streams --------------------------- *)
SeatName(s) == SeatFormal[s + 1]
ReadyForBid(s, caller) == SeatName(s) \o " ready for " \o SeatName(caller) \o "'s bid"
ReadyForCard(s, owner, isDummy, trick) ==
  SeatName(s) \o " ready for " \o (IF isDummy THEN "dummy" ELSE SeatName(owner))
    \o "'s card to trick " \o ToString(trick)

\* auction part of board: what the server sends to s / what s sends
RECURSIVE AuctionS2C(_, _, _)
AuctionS2C(s, calls, k) ==
  IF k > Len(calls) THEN <<>>
  ELSE (IF calls[k].seat = s THEN <<>> ELSE <<calls[k].relay>>) \o AuctionS2C(s, calls, k + 1)
RECURSIVE AuctionC2S(_, _, _)
AuctionC2S(s, calls, k) ==
  IF k > Len(calls) THEN <<>>
  ELSE (IF calls[k].seat = s THEN <<calls[k].sent>> ELSE <<ReadyForBid(s, calls[k].seat)>>)
       \o AuctionC2S(s, calls, k + 1)

\* play part: walks the cards with the play state before each card
\* (leader of the trick, position in the trick)
Plays(s, declr, owner) ==          \* does connection s put this card on the wire?
  LET dummy == Partner(declr) IN
  IF owner = dummy THEN s = declr ELSE s = owner
RECURSIVE PlayC2S(_, _, _, _, _, _)
PlayC2S(s, b, c, cards, k, p) ==
  IF k > Len(cards) THEN <<>>
  ELSE LET dummy == Partner(c.decl)
           owner == cards[k].seat
           mine == Plays(s, c.decl, owner)
           \* the client asks for dummy's hand just before dummy's first card
           askdummy == IF k = 2 /\ s # dummy THEN <<SeatName(s) \o " ready for dummy">>
                       ELSE <<>>
           line == IF mine THEN <<cards[k].sent>>
                   ELSE <<ReadyForCard(s, owner, owner = dummy, p.trickNum)>>
       IN askdummy \o line
            \o PlayC2S(s, b, c, cards, k + 1, P!PStep(p, owner, cards[k].card).st)

\* note on the dummy hand: the server discloses the ORIGINAL hand of dummy
\* (the log's deal is never consumed: play runs on a deep copy)
DummyMsg(b, c) == CardsMsg("Dummy", DealOf(b.deal)[Partner(c.decl)])

PlayS2C(s, b, c, cards) ==
  LET RECURSIVE F(_, _)
      F(k, p) ==
        IF k > Len(cards) THEN <<>>
        ELSE LET dummy == Partner(c.decl)
                 pos == Len(p.trick)
                 owner == cards[k].seat
                 mine == Plays(s, c.decl, owner)
                 prompt == IF pos = 0 /\ mine
                           THEN <<IF owner = dummy THEN "Dummy to lead" ELSE LeadMsg(s)>>
                           ELSE <<>>
                 relay == IF mine THEN <<>> ELSE <<cards[k].sent>>
                 dum == IF k = 1 /\ s # dummy THEN <<DummyMsg(b, c)>> ELSE <<>>
             IN prompt \o relay \o dum \o F(k + 1, P!PStep(p, owner, cards[k].card).st)
  IN F(1, InitPlayOf(b, c))

BoardS2C(s, n, b, calls, cards) ==
  LET c == ContractOf(b, calls)
      hdr == <<"Start of board", BoardMsg(n, b.dealer, b.vul),
               CardsMsg(SeatName(s), DealOf(b.deal)[s])>>
      auc == AuctionS2C(s, calls, 1)
  IN IF PassedOutC(c) THEN hdr \o auc
     ELSE hdr \o auc \o PlayS2C(s, b, c, cards)
BoardC2S(s, b, calls, cards) ==
  LET c == ContractOf(b, calls)
      hdr == <<SeatName(s) \o " ready for deal", SeatName(s) \o " ready for cards">>
      auc == AuctionC2S(s, calls, 1)
  IN IF PassedOutC(c) THEN hdr \o auc
     ELSE hdr \o auc \o PlayC2S(s, b, c, cards, 1, InitPlayOf(b, c))

RECURSIVE BoardsS2C(_, _, _, _)
BoardsS2C(s, boards, decs, n) ==
  IF n > Len(boards) THEN <<>>
  ELSE BoardS2C(s, n, boards[n], decs[n].calls, decs[n].cards)
       \o BoardsS2C(s, boards, decs, n + 1)
RECURSIVE BoardsC2S(_, _, _, _)
BoardsC2S(s, boards, decs, n) ==
  IF n > Len(boards) THEN <<>>
  ELSE BoardC2S(s, boards[n], decs[n].calls, decs[n].cards)
       \o BoardsC2S(s, boards, decs, n + 1)

\* ---- sessions that stopped early (deadlock): what the decisions taken so
\* far oblige the server to have sent.  Boards before the last one with a
\* decision are complete; on the last one the auction relays, then - if the
\* auction has ended in a contract - the card relays so far and the lead
\* prompt that is due next.
PendingPrompt(s, b, c, cards) ==
  LET p == PlayAfter(InitPlayOf(b, c), cards, Len(cards))
      dummy == Partner(c.decl)
      conn == IF p.active = dummy THEN c.decl ELSE p.active
  IN IF Len(cards) < 52 /\ Len(p.trick) = 0 /\ conn = s
     THEN <<IF p.active = dummy THEN "Dummy to lead" ELSE LeadMsg(s)>> ELSE <<>>
PartialBoardS2C(s, n, b, calls, cards) ==
  LET fa == FinalAuction(b, calls)
      hdr == <<"Start of board", BoardMsg(n, b.dealer, b.vul),
               CardsMsg(SeatName(s), DealOf(b.deal)[s])>>
      auc == AuctionS2C(s, calls, 1)
  IN IF ~A!Done(fa) \/ PassedOutC(A!Contract(fa)) THEN hdr \o auc
     ELSE hdr \o auc \o PlayS2C(s, b, A!Contract(fa), cards)
            \o PendingPrompt(s, b, A!Contract(fa), cards)
LastStarted(decs) ==
  LET St == {k \in 1..Len(decs) : decs[k].calls # <<>>}
  IN IF St = {} THEN 0 ELSE CHOOSE k \in St : \A j \in St : j <= k
RECURSIVE PartialBoards(_, _, _, _, _)
PartialBoards(s, boards, decs, n, last) ==
  IF n > last THEN <<>>
  ELSE (IF n < last THEN BoardS2C(s, n, boards[n], decs[n].calls, decs[n].cards)
        ELSE PartialBoardS2C(s, n, boards[n], decs[n].calls, decs[n].cards))
       \o PartialBoards(s, boards, decs, n + 1, last)
\* the board after the last started one is due as well (its header and the
\* seat's own cards need no decision), provided the last started one is over
BoardOver(b, d) ==
  LET fa == FinalAuction(b, d.calls) IN
  A!Done(fa) /\ (PassedOutC(A!Contract(fa)) \/ Len(d.cards) = 52)
NextBoardHeader(s, boards, decs, last) ==
  IF last < Len(boards) /\ (last = 0 \/ BoardOver(boards[last], decs[last]))
  THEN <<"Start of board", BoardMsg(last + 1, boards[last + 1].dealer, boards[last + 1].vul),
         CardsMsg(SeatName(s), DealOf(boards[last + 1].deal)[s])>>
  ELSE <<>>
PartialServerStream(s, boards, decs, teams) ==
  <<SeatedMsg(s, teams[Side(s) + 1]), TeamsMsg(teams[1], teams[2])>>
    \o PartialBoards(s, boards, decs, 1, LastStarted(decs))
    \o NextBoardHeader(s, boards, decs, LastStarted(decs))

\* a complete session of four conforming seats
ServerStream(s, boards, decs, teams) ==
  <<SeatedMsg(s, teams[Side(s) + 1]), TeamsMsg(teams[1], teams[2])>>
    \o BoardsS2C(s, boards, decs, 1) \o <<"End of session">>
ClientStream(s, boards, decs, teams) ==
  <<ConnectMsg(teams[Side(s) + 1], s, 18), SeatName(s) \o " ready for teams",
    SeatName(s) \o " ready to start">>
    \o BoardsC2S(s, boards, decs, 1)

LogItems(boards, decs, teams, n) ==
  [k \in 1..n |-> LogItem(boards[k], decs[k].calls, decs[k].cards, teams)]

(* ------------------------------ admission ------------------------------ *)
\* requests are processed one at a time in arrival order; the table maps a
\* seat to the team name seated there, or to Free (the code's None; the empty
\* string is a team name like any other)
\* the command line: the session plays the boards of the file from the
\* restart index (counted from 0) on; an index outside the file is refused
Restart(boards, r) == SubSeq(boards, r + 1, Len(boards))
RestartOk(boards, r) == 0 <= r /\ r < Len(boards)

Free == "<<free seat>>"
ErrVersion(v) == "ERROR: Protocol version is not 18 but " \o ToString(v) \o "."
ErrSeated(s) == "ERROR: Player " \o SeatName(s) \o " is already seated."
ErrTeam(t, pt) == "ERROR: Team name \"" \o t \o "\" is not same as partner's team name \""
                    \o pt \o "\"."
Verdict(table, rq) ==
  IF rq.version # 18 THEN [ok |-> FALSE, reply |-> ErrVersion(rq.version)]
  ELSE IF table[rq.seat] # Free THEN [ok |-> FALSE, reply |-> ErrSeated(rq.seat)]
  ELSE IF table[Partner(rq.seat)] # Free /\ table[Partner(rq.seat)] # rq.team
       THEN [ok |-> FALSE, reply |-> ErrTeam(rq.team, table[Partner(rq.seat)])]
  ELSE [ok |-> TRUE, reply |-> SeatedMsg(rq.seat, rq.team)]
RECURSIVE TableAfter(_, _, _)
TableAfter(table, rqs, k) ==
  IF k = 0 THEN table
  ELSE LET t == TableAfter(table, rqs, k - 1)
           v == Verdict(t, rqs[k])
       IN IF v.ok THEN [t EXCEPT ![rqs[k].seat] = rqs[k].team] ELSE t
EmptyTable == [s \in Seats |-> Free]
TableFull(t) == \A s \in Seats : t[s] # Free
\* the k-th request's verdict, given the requests before it
VerdictOf(rqs, k) == Verdict(TableAfter(EmptyTable, rqs, k - 1), rqs[k])
=============================================================================
