------------------------------ MODULE Framing ------------------------------
(***************************************************************************)
(* CR LF framing of the protocol (socket_interface.MessageInterface):      *)
(* send_message appends CR LF; receive_message reads one byte at a time up *)
(* to CR LF.  The network delivers the sender's byte string in arbitrary   *)
(* chunks and the peer may close the connection at any position (between   *)
(* messages, inside one, after CR).                                        *)
(*                                                                         *)
(* Safety: what has been received is a prefix of what was sent, each       *)
(* message intact and in order.  Liveness: once the peer has closed, the   *)
(* reader stops with an error - it neither waits nor spins.  EofRaises =   *)
(* FALSE is the behaviour of the pinned tree (recv() = b'' appended for    *)
(* ever), kept to show that TLC finds the lasso (C19, finding F3).         *)
(***************************************************************************)
EXTENDS Naturals, Sequences, FiniteSets, TLC, Json

CONSTANTS Payload,      \* bytes that may occur inside a message (no CR)
          MaxMsgs, MaxLen,
          EofRaises,    \* TRUE: repaired reader; FALSE: pinned reader
          ReadImpl      \* "byte": recv(1) and a two-state scanner (the code): what arrives
                        \* together does not matter.  "block": recv(4096), every block split at
                        \* CR LF on its own and the kept tail glued in front of its first piece
                        \* afterwards (regression configuration, seeded changes C19-m1, C09-r8m2,
                        \* C10-r8m1): a block that ends between CR and LF glues two messages

CR == 13
LF == 10

(* ------------------------------- pure part ----------------------------- *)
RECURSIVE Flatten(_)
Flatten(ms) == IF ms = <<>> THEN <<>> ELSE Head(ms) \o <<CR, LF>> \o Flatten(Tail(ms))

\* the reader as a function of the bytes that arrive and of whether the peer
\* then closes: [got |-> messages returned, final |-> "error" | "blocked"]
\* ("blocked": waiting for bytes of a peer that is still connected)
\* (one step per MESSAGE, not per byte: lines of any length - the protocol puts
\* no bound on them - are evaluated without deep recursion)
RECURSIVE Read(_, _, _, _)
Read(bytes, closed, buf, got) ==
  LET crs == {k \in 1..Len(bytes) : bytes[k] = CR}
      stop == [got |-> got, final |-> IF closed THEN "error" ELSE "blocked"]
  IN IF crs = {} THEN stop
     ELSE LET k == CHOOSE x \in crs : \A y \in crs : x <= y IN
          IF k = Len(bytes) THEN stop
          ELSE IF bytes[k + 1] = LF
               THEN Read(SubSeq(bytes, k + 2, Len(bytes)), closed, <<>>,
                         Append(got, buf \o SubSeq(bytes, 1, k - 1)))
               ELSE [got |-> got, final |-> "error"]          \* CR not followed by LF
ReadAll(bytes, closed) == Read(bytes, closed, <<>>, <<>>)

RECURSIVE Compositions(_)
Compositions(s) ==
  IF s = <<>> THEN {<<>>}
  ELSE UNION {{<<SubSeq(s, 1, k)>> \o rest :
                  rest \in Compositions(SubSeq(s, k + 1, Len(s)))} : k \in 1..Len(s)}

IsPrefixOf(a, b) == Len(a) <= Len(b) /\ SubSeq(b, 1, Len(a)) = a

SeqsUpTo(S, n) == UNION {[1..k -> S] : k \in 0..n}
MsgLists == SeqsUpTo(SeqsUpTo(Payload, MaxLen), MaxMsgs)

(* ------------------------------ the system ----------------------------- *)
VARIABLES msgs,       \* what the sender sends
          scenario,   \* the chunks as chosen initially (history, for export)
          closed,     \* the peer closes after the last chunk
          chunks,     \* bytes still in transit, as chunks
          buf, afterCR, got, status, spin
vars == <<msgs, scenario, closed, chunks, buf, afterCR, got, status, spin>>

Init ==
  /\ msgs \in MsgLists
  /\ closed \in BOOLEAN
  /\ \E t \in 0..Len(Flatten(msgs)) :
        /\ (~closed) => t = Len(Flatten(msgs))
        /\ chunks \in Compositions(SubSeq(Flatten(msgs), 1, t))
  /\ scenario = chunks
  /\ buf = <<>> /\ afterCR = FALSE /\ got = <<>> /\ status = "reading"
  /\ spin = FALSE

\* the pieces of a block between its CR LF pairs (the last piece is what follows
\* the last pair - possibly empty)
RECURSIVE SplitCRLF(_)
SplitCRLF(b) ==
  LET P == {k \in 1..(Len(b) - 1) : b[k] = CR /\ b[k + 1] = LF} IN
  IF P = {} THEN <<b>>
  ELSE LET k == CHOOSE x \in P : \A y \in P : x <= y
       IN <<SubSeq(b, 1, k - 1)>> \o SplitCRLF(SubSeq(b, k + 2, Len(b)))

\* (regression only) recv(4096) returns everything that arrived together
RecvBlock ==
  /\ ReadImpl = "block" /\ status = "reading" /\ chunks # <<>>
  /\ LET c == Head(chunks)
         ps == SplitCRLF(c)
     IN /\ chunks' = Tail(chunks)
        /\ IF Len(ps) = 1 THEN buf' = buf \o c /\ got' = got
           ELSE /\ got' = got \o <<buf \o ps[1]>> \o SubSeq(ps, 2, Len(ps) - 1)
                /\ buf' = ps[Len(ps)]
  /\ UNCHANGED <<msgs, scenario, closed, afterCR, status, spin>>

\* recv(1) returns the next byte in transit
RecvByte ==
  /\ ReadImpl = "byte"
  /\ status = "reading" /\ chunks # <<>>
  /\ LET c == Head(chunks)[1]
         rest == IF Len(Head(chunks)) = 1 THEN Tail(chunks)
                 ELSE <<Tail(Head(chunks))>> \o Tail(chunks)
     IN /\ chunks' = rest
        /\ IF afterCR
           THEN IF c = LF
                THEN /\ got' = Append(got, buf) /\ buf' = <<>> /\ afterCR' = FALSE
                     /\ status' = "reading"
                ELSE /\ status' = "error" /\ UNCHANGED <<got, buf, afterCR>>
           ELSE IF c = CR
                THEN /\ afterCR' = TRUE /\ UNCHANGED <<got, buf, status>>
                ELSE /\ buf' = Append(buf, c) /\ UNCHANGED <<got, afterCR, status>>
  /\ UNCHANGED <<msgs, scenario, closed, spin>>

\* recv(1) returns b'' : the peer has closed
RecvEof ==
  /\ status = "reading" /\ chunks = <<>> /\ closed
  /\ IF EofRaises \/ afterCR
     THEN status' = "error" /\ UNCHANGED spin
     ELSE status' = "reading" /\ spin' = ~spin     \* b'' appended, loop again
  /\ UNCHANGED <<msgs, scenario, closed, chunks, buf, afterCR, got>>

\* nothing in transit and the peer still connected: recv blocks
RecvBlocks ==
  /\ status = "reading" /\ chunks = <<>> /\ ~closed
  /\ status' = "blocked"
  /\ UNCHANGED <<msgs, scenario, closed, chunks, buf, afterCR, got, spin>>

Next == RecvByte \/ RecvBlock \/ RecvEof \/ RecvBlocks
Spec == Init /\ [][Next]_vars /\ WF_vars(Next)

(* ------------------------------ properties ----------------------------- *)
TypeOK == status \in {"reading", "error", "blocked"}
ReceivedIsPrefix == IsPrefixOf(got, msgs)
PartialIsPrefix == status = "reading" /\ Len(got) < Len(msgs) => IsPrefixOf(buf, msgs[Len(got) + 1])
\* the step-by-step reader equals the pure function
AgreesWithFunction ==
  status # "reading" =>
     LET bytes == Flatten(msgs) IN
     \E t \in 0..Len(bytes) :
        LET r == ReadAll(SubSeq(bytes, 1, t), closed)
        IN r.got = got /\ r.final = status
CompleteWhenOpen == status = "blocked" => got = msgs
Terminates == <>(status \in {"error", "blocked"})
ClosedGivesError == closed => <>(status = "error")
NeverBlockedOnClosed == closed => status # "blocked"

ToSeq(c) == c
Export ==
  status # "reading" =>
    PrintT(ToJson([msgs |-> msgs, chunks |-> scenario, closed |-> closed,
                   got |-> got, final |-> status]))
=============================================================================
