------------------------------- MODULE Bridge -------------------------------
(***************************************************************************)
(* Shared vocabulary of the bridge_env specification.                      *)
(*                                                                         *)
(* Everything is encoded as small naturals so that values cross the        *)
(* TLC <-> Python boundary as plain JSON integers:                         *)
(*   seats    0..3   = North, East, South, West   (clockwise)              *)
(*   sides    0..1   = N/S, E/W                                            *)
(*   strains  0..4   = C, D, H, S, NT                                      *)
(*   calls    0..37  = 1C..7NT (level-major), 35 = Pass, 36 = X, 37 = XX   *)
(*   cards    0..51  = C2..CA, D2..DA, H2..HA, S2..SA                      *)
(*   vul      0..3   = None, NS, EW, Both                                  *)
(* NoSeat (4) stands for Python's None where a seat is expected.           *)
(***************************************************************************)
EXTENDS Naturals, Sequences, FiniteSets

Seats   == 0..3
NoSeat  == 4
Sides   == 0..1
Strains == 0..4
NT      == 4
Suits   == 0..3
Vuls    == 0..3
VulNone == 0
VulNS   == 1
VulEW   == 2
VulBoth == 3

Left(s)    == (s + 1) % 4
Right(s)   == (s + 3) % 4
Partner(s) == (s + 2) % 4
Side(s)    == s % 2
OtherSide(d) == 1 - d
SameSide(a, b) == Side(a) = Side(b)
\* the seat that is k places clockwise from s
SeatAfter(s, k) == (s + k) % 4

BidCalls == 0..34
PASS == 35
DBL  == 36
RDBL == 37
Calls == 0..37
NoCall == 38
IsBid(c) == c < 35
Level(c)  == (c \div 5) + 1
Strain(c) == c % 5
MkBid(level, strain) == (level - 1) * 5 + strain

Cards == 0..51
CardSuit(c) == c \div 13
CardRank(c) == (c % 13) + 2
MkCard(rank, suit) == suit * 13 + (rank - 2)

\* vulnerability of a side under a board vulnerability
SideVul(v, d) == v = VulBoth \/ (v = VulNS /\ d = 0) \/ (v = VulEW /\ d = 1)

\* small sequence helpers (kept local so that modules do not depend on the
\* CommunityModules unless they have to)
Last(s) == s[Len(s)]
Range(s) == {s[i] : i \in 1..Len(s)}
SeqSum(s) == LET RECURSIVE Sum(_)
                 Sum(i) == IF i = 0 THEN 0 ELSE s[i] + Sum(i - 1)
             IN Sum(Len(s))
=============================================================================
