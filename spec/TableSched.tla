----------------------------- MODULE TableSched -----------------------------
(***************************************************************************)
(* Table.tla with a history variable recording which process took each     *)
(* step, so that TLC-generated behaviours (simulation) can be exported as  *)
(* SCHEDULES and replayed on the real server under the baton (spec -> code *)
(* direction of the binding for C09).  Never used for exhaustive checking: *)
(* the history would make every interleaving a distinct state.             *)
(***************************************************************************)
EXTENDS Table, Json

VARIABLE sched
svars == <<vars, sched>>

Mover == IF \E p \in ProcSet : pc'[p] # pc[p]
         THEN <<CHOOSE p \in ProcSet : pc'[p] # pc[p]>> ELSE <<>>
SInit == Init /\ sched = <<>>
SNext == Next /\ sched' = sched \o Mover
SSpec == SInit /\ [][SNext]_svars

\* printed when every thread has finished (once per behaviour)
ExportSchedule ==
  (AllDone /\ sched # <<>>) => PrintT(ToJson([sched |-> sched, done |-> TRUE]))
\* printed in the state in which nothing can move although threads remain
\* (used with the regression configuration SyncImpl = "flags")
ExportDeadlock ==
  (~AllDone /\ ~ENABLED Next) => PrintT(ToJson([sched |-> sched, done |-> FALSE]))
=============================================================================
