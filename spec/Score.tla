------------------------------- MODULE Score -------------------------------
(***************************************************************************)
(* Duplicate bridge scoring (Law 77) written from the law text by formula, *)
(* independently of the tables in bridge_env/score.py and of the table in  *)
(* the repository's test file; vulnerability of declarer's side; and the   *)
(* IMP scale (ImpScale) compared with its declarative definition.          *)
(* Oracle for C07 and C16; also used by the table-manager model.           *)
(***************************************************************************)
EXTENDS Bridge, Integers, ImpScale

Minor(strain) == strain \in {0, 1}

\* dbl: 0 undoubled, 1 doubled, 2 redoubled; vul: declarer's side vulnerable
Undertricks(n, dbl, vul) ==
  IF dbl = 0 THEN n * (IF vul THEN 100 ELSE 50)
  ELSE LET doubled ==
             IF vul THEN 200 + 300 * (n - 1)
             ELSE IF n = 1 THEN 100 ELSE IF n = 2 THEN 300 ELSE IF n = 3 THEN 500
                  ELSE 500 + 300 * (n - 3)
       IN IF dbl = 1 THEN doubled ELSE 2 * doubled

TrickScore(level, strain, dbl) ==
  LET base == (IF Minor(strain) THEN 20 ELSE 30) * level
                + (IF strain = NT THEN 10 ELSE 0)
  IN IF dbl = 0 THEN base ELSE IF dbl = 1 THEN 2 * base ELSE 4 * base

Made(level, strain, dbl, vul, over) ==
  LET ts == TrickScore(level, strain, dbl)
      game == IF ts >= 100 THEN (IF vul THEN 500 ELSE 300) ELSE 50
      slam == IF level = 6 THEN (IF vul THEN 750 ELSE 500)
              ELSE IF level = 7 THEN (IF vul THEN 1500 ELSE 1000) ELSE 0
      insult == 50 * dbl
      perOver == IF dbl = 0 THEN (IF Minor(strain) THEN 20 ELSE 30)
                 ELSE (IF vul THEN 200 ELSE 100) * dbl
  IN ts + game + slam + insult + perOver * over

\* the score of declarer's side
Duplicate(level, strain, dbl, vul, tricks) ==
  IF tricks < level + 6
  THEN -Undertricks(level + 6 - tricks, dbl, vul)
  ELSE Made(level, strain, dbl, vul, tricks - level - 6)

DeclVul(boardVul, decl) == SideVul(boardVul, Side(decl))
DblStatus(x, xx) == IF xx THEN 2 ELSE IF x THEN 1 ELSE 0

\* calc_score(contract, tricks) for a contract given as call 0..34 (or NoCall
\* for a passed-out board)
ContractScore(bid, x, xx, boardVul, decl, tricks) ==
  IF bid = NoCall THEN 0
  ELSE Duplicate(Level(bid), Strain(bid), DblStatus(x, xx),
                 DeclVul(boardVul, decl), tricks)

(* ------------------------------ IMP scale ------------------------------ *)
Thresholds == {20, 50, 90, 130, 170, 220, 270, 320, 370, 430, 500, 600, 750,
               900, 1100, 1300, 1500, 1750, 2000, 2250, 2500, 3000, 3500, 4000}
ImpsDeclarative(d) ==
  LET n == Cardinality({t \in Thresholds : t <= Abs(d)})
  IN IF d >= 0 THEN n ELSE -n

(* ---------------- design check: the complete finite domain ------------- *)
VARIABLES bid, dbl, bvul, decl, tricks
vars == <<bid, dbl, bvul, decl, tricks>>
Init == /\ bid \in BidCalls /\ dbl \in 0..2 /\ bvul \in Vuls
        /\ decl \in Seats /\ tricks \in 0..13
Next == UNCHANGED vars
Spec == Init /\ [][Next]_vars

Sc(t) == Duplicate(Level(bid), Strain(bid), dbl, DeclVul(bvul, decl), t)
MadeIsPositive     == tricks >= Level(bid) + 6 => Sc(tricks) > 0
DefeatedIsNegative == tricks < Level(bid) + 6 => Sc(tricks) < 0
MonotoneInTricks   == tricks < 13 => Sc(tricks) < Sc(tricks + 1)
DoublingRaisesStakes ==
  dbl < 2 => LET s0 == Sc(tricks)
                 s1 == Duplicate(Level(bid), Strain(bid), dbl + 1,
                                 DeclVul(bvul, decl), tricks)
             IN IF tricks >= Level(bid) + 6 THEN s1 > s0 ELSE s1 < s0
VulOnlyDeclarersSide ==
  /\ DeclVul(bvul, decl) = DeclVul(bvul, Partner(decl))
  /\ (bvul = VulNone => ~DeclVul(bvul, decl))
  /\ (bvul = VulBoth => DeclVul(bvul, decl))
  /\ (bvul \in {VulNS, VulEW} => DeclVul(bvul, decl) # DeclVul(bvul, Left(decl)))
  /\ (bvul = VulNS => (DeclVul(bvul, decl) <=> decl \in {0, 2}))
\* a few entries every player knows, as anchors of the formula
KnownScores ==
  /\ Duplicate(3, NT, 0, FALSE, 9) = 400 /\ Duplicate(3, NT, 0, TRUE, 9) = 600
  /\ Duplicate(4, 3, 0, FALSE, 10) = 420 /\ Duplicate(4, 2, 0, TRUE, 11) = 650
  /\ Duplicate(6, NT, 0, FALSE, 12) = 990 /\ Duplicate(7, NT, 2, TRUE, 13) = 2980
  /\ Duplicate(1, 0, 0, FALSE, 7) = 70 /\ Duplicate(2, 3, 1, FALSE, 8) = 470
  /\ Duplicate(1, NT, 2, TRUE, 13) = 3160 /\ Duplicate(5, 0, 1, TRUE, 12) = 950
  /\ Duplicate(7, NT, 2, TRUE, 0) = -7600 /\ Duplicate(7, 0, 1, FALSE, 0) = -3500
  /\ Duplicate(4, 3, 1, FALSE, 7) = -500 /\ Duplicate(4, 3, 1, TRUE, 7) = -800
  /\ Duplicate(2, 0, 2, FALSE, 8) = 560 /\ Duplicate(3, 0, 2, TRUE, 9) = 840

ImpRange == -6000..6000
ImpScaleChecks ==
  /\ \A d \in ImpRange : Imps(d) = ImpsDeclarative(d)
  /\ \A d \in ImpRange : Imps(-d) = -Imps(d)
  /\ \A d \in ImpRange : d < 6000 => Imps(d) <= Imps(d + 1)
  /\ \A d \in ImpRange : Imps(d) \in -24..24
  /\ Imps(19) = 0 /\ Imps(20) = 1 /\ Imps(3999) = 23 /\ Imps(4000) = 24
=============================================================================
