------------------------------ MODULE Notation ------------------------------
(***************************************************************************)
(* Every textual / index notation of bridge_env as TLA+ strings: cards,    *)
(* calls, contracts, seats, vulnerabilities, PBN deal strings from any     *)
(* first seat, 52-slot vectors, JSON card lists, and the texts of the      *)
(* Blue Chip Bridge protocol messages (hand, call, card in both notations, *)
(* board header, teams, connection line).                                  *)
(*                                                                         *)
(* Decoding is specified RELATIONALLY: a decode event (text -> value) is   *)
(* accepted iff text = Encode(value) (up to the letter-case / spelling     *)
(* variants a parser must accept), which pins the decoder because the      *)
(* encoders are injective (checked by TLC below on the complete domains).  *)
(* Oracle for C14, C15, C19 (messages); vocabulary of C08, C10, C12,       *)
(* C17, C18.                                                               *)
(***************************************************************************)
EXTENDS Bridge, Integers, TLC

RankStr   == <<"2", "3", "4", "5", "6", "7", "8", "9", "T", "J", "Q", "K", "A">>
SuitStr   == <<"C", "D", "H", "S", "NT">>
SeatShort == <<"N", "E", "S", "W">>
SeatFormal == <<"North", "East", "South", "West">>
VulStr    == <<"None", "NS", "EW", "Both">>       \* str(Vul), JSON files
VulPbn    == <<"None", "NS", "EW", "All">>        \* Vul.pbn_format()
VulProto  == <<"Neither", "N/S", "E/W", "Both">>  \* protocol board header
\* spellings accepted by Vul.str_to_vul
VulSpellings(v) == IF v = VulNone THEN {"None", "Love", "-"}
                   ELSE IF v = VulBoth THEN {"Both", "All"}
                   ELSE {VulStr[v + 1]}
PairStr == <<"NS", "EW">>

RankOf(c) == RankStr[CardRank(c) - 1]
CardStr(c)   == SuitStr[CardSuit(c) + 1] \o RankOf(c)      \* str(card): "C2"
CardStrRS(c) == RankOf(c) \o SuitStr[CardSuit(c) + 1]      \* protocol: "2C"

CallStr(c) == IF c = PASS THEN "Pass" ELSE IF c = DBL THEN "X"
              ELSE IF c = RDBL THEN "XX"
              ELSE ToString(Level(c)) \o SuitStr[Strain(c) + 1]
\* Bid enum member names: C1, NT7, Pass, X, XX
CallName(c) == IF c >= 35 THEN CallStr(c)
               ELSE SuitStr[Strain(c) + 1] \o ToString(Level(c))

\* dbl: 0 undoubled, 1 doubled, 2 redoubled; bid = NoCall: passed out
ContractStr(bid, dbl) ==
  IF bid = NoCall THEN "Passed_out"
  ELSE CallStr(bid) \o (IF dbl = 2 THEN "XX" ELSE IF dbl = 1 THEN "X" ELSE "")

(* ------------------------------ hands, deals --------------------------- *)
\* ranks of `hand` in `suit`, high to low, separated by sep
RanksDesc(hand, suit, sep) ==
  LET RECURSIVE F(_, _)
      F(r, first) ==
        IF r < 2 THEN ""
        ELSE IF MkCard(r, suit) \in hand
             THEN (IF first THEN "" ELSE sep) \o RankStr[r - 1] \o F(r - 1, FALSE)
             ELSE F(r - 1, first)
  IN F(14, TRUE)

\* one hand in a PBN deal: S.H.D.C, void = empty field, no cards = "-"
PbnHand(hand) ==
  IF hand = {} THEN "-"
  ELSE RanksDesc(hand, 3, "") \o "." \o RanksDesc(hand, 2, "") \o "."
       \o RanksDesc(hand, 1, "") \o "." \o RanksDesc(hand, 0, "")
\* the deal from the first seat, clockwise
PbnDeal(deal, first) ==
  SeatShort[first + 1] \o ":" \o PbnHand(deal[first]) \o " "
    \o PbnHand(deal[SeatAfter(first, 1)]) \o " "
    \o PbnHand(deal[SeatAfter(first, 2)]) \o " "
    \o PbnHand(deal[SeatAfter(first, 3)])

\* 52-slot vector of a hand (1-based sequence, slot c+1 for card c)
BinVector(hand) == [k \in 1..52 |-> IF (k - 1) \in hand THEN 1 ELSE 0]
\* ascending list of the cards of a hand
CardsAsc(hand) ==
  LET RECURSIVE F(_)
      F(c) == IF c > 51 THEN <<>>
              ELSE IF c \in hand THEN <<c>> \o F(c + 1) ELSE F(c + 1)
  IN F(0)
JsonHand(hand) == [k \in 1..Len(CardsAsc(hand)) |-> CardStr(CardsAsc(hand)[k])]

IsFullDeal(deal) ==
  /\ \A s \in Seats : Cardinality(deal[s]) = 13
  /\ \A a, b \in Seats : a # b => deal[a] \cap deal[b] = {}
  /\ UNION {deal[s] : s \in Seats} = Cards

(* --------------------------- protocol messages ------------------------- *)
\* Server.hand_to_str: "S A K. H -. D 7 3. C Q."
SuitField(hand, suit) ==
  LET rs == RanksDesc(hand, suit, " ") IN IF rs = "" THEN "-" ELSE rs
HandText(hand) ==
  "S " \o SuitField(hand, 3) \o ". H " \o SuitField(hand, 2)
    \o ". D " \o SuitField(hand, 1) \o ". C " \o SuitField(hand, 0) \o "."
CardsMsg(owner, hand) == owner \o "'s cards : " \o HandText(hand)

CallWords(c) == IF c = PASS THEN "passes" ELSE IF c = DBL THEN "doubles"
                ELSE IF c = RDBL THEN "redoubles" ELSE "bids " \o CallStr(c)
CallMsg(seat, c) == SeatFormal[seat + 1] \o " " \o CallWords(c)
CardMsg(seat, c)   == SeatFormal[seat + 1] \o " plays " \o CardStrRS(c)
CardMsgSR(seat, c) == SeatFormal[seat + 1] \o " plays " \o CardStr(c)
BoardMsg(n, dealer, vul) ==
  "Board number " \o ToString(n) \o ". Dealer " \o SeatFormal[dealer + 1]
    \o ". " \o VulProto[vul + 1] \o " vulnerable."
TeamsMsg(ns, ew) == "Teams : N/S : \"" \o ns \o "\" E/W : \"" \o ew \o "\""
ConnectMsg(team, seat, version) ==
  "Connecting \"" \o team \o "\" as " \o SeatFormal[seat + 1]
    \o " using protocol version " \o ToString(version)
SeatedMsg(seat, team) == SeatFormal[seat + 1] \o " " \o team \o " seated"
LeadMsg(seat) == SeatFormal[seat + 1] \o " to lead"

(* ---------------- design check: injectivity on the domains ------------- *)
Injective(f(_), D) == \A a, b \in D : a # b => f(a) # f(b)
ContractDomain == (BidCalls \X (0..2)) \cup {<<NoCall, 0>>}
CStr(p) == ContractStr(p[1], p[2])
NotationsInjective ==
  /\ Injective(CardStr, Cards) /\ Injective(CardStrRS, Cards)
  /\ Injective(CallStr, Calls) /\ Injective(CallName, Calls)
  /\ Injective(CStr, ContractDomain)
  /\ \A a, b \in Seats : a # b => SeatShort[a + 1] # SeatShort[b + 1]
                                  /\ SeatFormal[a + 1] # SeatFormal[b + 1]
  /\ \A a, b \in Vuls : a # b => /\ VulSpellings(a) \cap VulSpellings(b) = {}
                                 /\ VulProto[a + 1] # VulProto[b + 1]
                                 /\ VulPbn[a + 1] # VulPbn[b + 1]
  /\ \A v \in Vuls : VulStr[v + 1] \in VulSpellings(v) /\ VulPbn[v + 1] \in VulSpellings(v)
  \* no call text is a card text and the two card notations never collide
  /\ \A c \in Cards, d \in Cards : CardStr(c) # CardStrRS(d)
  /\ \A c \in Cards : MkCard(CardRank(c), CardSuit(c)) = c
  /\ \A b \in BidCalls : MkBid(Level(b), Strain(b)) = b
  /\ \A s \in Seats, c \in Calls, d \in Calls : c # d => CallMsg(s, c) # CallMsg(s, d)

\* PBN hand / deal strings are injective on the deals of a reduced pack
\* (structurally: the field separators and the fixed rank order make the text
\* determine the set; this is the bounded confirmation)
HandsInjective(P) ==
  /\ \A a, b \in SUBSET P : a # b => PbnHand(a) # PbnHand(b) /\ HandText(a) # HandText(b)
=============================================================================
