------------------------------- MODULE Auction -------------------------------
(***************************************************************************)
(* bridge_env.bidding_phase.BiddingPhase as it is coded: the incremental   *)
(* bookkeeping (availability mask, last bidder, doubled flags, the         *)
(* first-to-name table) and take_bid's branch structure, as ONE pure step  *)
(* function Step(st, c) so that the model checker, the trace specification *)
(* (AuctionTrace) and the table-manager model (Table) all use the same     *)
(* definition.                                                             *)
(*                                                                         *)
(* The law-shaped oracle is AuctionLaw; the invariants below say the two   *)
(* agree in every reachable state.                                         *)
(***************************************************************************)
EXTENDS Bridge, AuctionLaw, TLC, Json

CONSTANTS OfferBids,     \* the bids offered by the model checker (subset of 0..34)
          Dealers,       \* dealers explored
          VulSet         \* vulnerabilities explored

(* ---------------- the state of a BiddingPhase object ------------------- *)
InitAuction(d, v) ==
  [dealer     |-> d,
   vul        |-> v,
   active     |-> d,                       \* __active_player (NoSeat = None)
   lastBidder |-> NoSeat,                  \* __last_bidder
   lastBid    |-> NoCall,                  \* __last_bid
   calledX    |-> FALSE,
   calledXX   |-> FALSE,
   hist       |-> <<>>,                    \* __bid_history
   perSeat    |-> [s \in Seats |-> <<>>],  \* __players_bid_history
   firstNamed |-> [p \in Sides \X Strains |-> NoSeat],   \* __declarer_check
   avail      |-> (BidCalls \cup {PASS})]  \* __available_bid (set of 1-slots)

Done(st) == st.active = NoSeat             \* has_done()

\* the recomputation of the X / XX slots at the end of take_bid
Recheck(avail, lastBidder, calledX, calledXX, nextSeat) ==
  IF lastBidder = NoSeat THEN avail
  ELSE LET x  == (~calledX) /\ (~calledXX) /\ ~SameSide(nextSeat, lastBidder)
           xx == calledX /\ (~calledXX) /\ SameSide(nextSeat, lastBidder)
       IN  ((avail \ {DBL, RDBL}) \cup (IF x THEN {DBL} ELSE {}))
              \cup (IF xx THEN {RDBL} ELSE {})

\* take_bid(c): result in {"raises", "illegal", "finished", "ongoing"}
Step(st, c) ==
  IF Done(st) THEN [st |-> st, res |-> "raises"]
  ELSE IF c \notin st.avail THEN [st |-> st, res |-> "illegal"]
  ELSE
    LET me == st.active
        n  == Len(st.hist)
        appended == [st EXCEPT !.hist = Append(@, c),
                               !.perSeat[me] = Append(@, c)]
    IN
    IF c = PASS /\ n >= 3 /\ st.hist[n] = PASS /\ st.hist[n-1] = PASS
    THEN [st |-> [appended EXCEPT !.active = NoSeat], res |-> "finished"]
    ELSE
      LET s1 == IF c = PASS THEN appended
                ELSE IF c = DBL  THEN [appended EXCEPT !.calledX = TRUE]
                ELSE IF c = RDBL THEN [appended EXCEPT !.calledXX = TRUE]
                ELSE [appended EXCEPT
                        !.lastBidder = me,
                        !.lastBid = c,
                        !.firstNamed[<<Side(me), Strain(c)>>] =
                             IF @ = NoSeat THEN me ELSE @,
                        !.calledX = FALSE,
                        !.calledXX = FALSE,
                        !.avail = @ \ (0..c)]
          nxt == Left(me)
      IN [st |-> [s1 EXCEPT !.active = nxt,
                            !.avail = Recheck(s1.avail, s1.lastBidder,
                                              s1.calledX, s1.calledXX, nxt)],
          res |-> "ongoing"]

\* contract()
Contract(st) ==
  IF ~Done(st) THEN NoContract
  ELSE IF st.lastBid = NoCall
       THEN [bid |-> NoCall, x |-> FALSE, xx |-> FALSE, vul |-> st.vul,
             decl |-> NoSeat]
       ELSE [bid |-> st.lastBid, x |-> st.calledX, xx |-> st.calledXX,
             vul |-> st.vul,
             decl |-> st.firstNamed[<<Side(st.lastBidder), Strain(st.lastBid)>>]]

(* ------------------------------ behaviours ----------------------------- *)
VARIABLES st,    \* the object
          res    \* result of the last take_bid ("new" initially)
vars == <<st, res>>

OfferCalls == OfferBids \cup {PASS, DBL, RDBL}

Init == /\ \E d \in Dealers, v \in VulSet : st = InitAuction(d, v)
        /\ res = "new"

Take(c) == LET r == Step(st, c) IN st' = r.st /\ res' = r.res

Next == \E c \in OfferCalls : Take(c)

\* only the cheapest sufficient bid: produces the long auctions in simulation
SlowNext == ~Done(st) /\ \E c \in st.avail :
               /\ IsBid(c) => (c \in st.avail /\ \A b \in st.avail : IsBid(b) => c <= b)
               /\ Take(c)

Spec     == Init /\ [][Next]_vars
SlowSpec == Init /\ [][SlowNext]_vars

(* ------------------------------ properties ----------------------------- *)
TypeOK ==
  /\ st.active \in Seats \cup {NoSeat}
  /\ st.lastBidder \in Seats \cup {NoSeat}
  /\ st.lastBid \in BidCalls \cup {NoCall}
  /\ st.avail \subseteq Calls
  /\ res \in {"new", "raises", "illegal", "finished", "ongoing"}

\* C01: the advertised vector is exactly the legal set
LegalIsLaw == ~Done(st) => st.avail = LawLegal(st.dealer, st.hist)
\* the mask always has the shape {lo..34} + Pass + maybe X + maybe XX
AvailShape == \E lo \in 0..35 : st.avail \cap BidCalls = lo..34
\* C01: a refused call changes nothing (action property)
RefusedUnchanged ==
  [][res' \in {"illegal", "raises"} => st' = st]_vars
\* C01: accepted iff legal (action property over every offered call)
AcceptedIffLegal ==
  [][\A c \in OfferCalls : ~Done(st) =>
        ((Step(st, c).res \in {"ongoing", "finished"})
            <=> LawLegalCall(st.dealer, st.hist, c))]_vars

\* C02: clockwise turns, exact end
TurnIsLaw == st.active = IF LawEnded(st.hist) THEN NoSeat
                         ELSE LawNextSeat(st.dealer, st.hist)
PerSeatIsShare == \A s \in Seats : st.perSeat[s] = LawShare(st.dealer, st.hist, s)
\* never later: no proper prefix of the history is already ended
NeverLater == \A k \in 0..(Len(st.hist) - 1) : ~LawEnded(SubSeq(st.hist, 1, k))
AfterEndRefused ==
  [][Done(st) => (res' = "raises" /\ st' = st)]_vars
FinishedIffEnded ==
  [][(res' = "finished") <=> (~Done(st) /\ Done(st'))]_vars

\* C03: the contract
ContractIsLaw == Contract(st) = LawContract(st.dealer, st.vul, st.hist)
NoContractBeforeEnd == ~Done(st) => Contract(st) = NoContract

(* --------------------------- quotient / export ------------------------- *)
TrailingPasses ==
  LET n == Len(st.hist)
      RECURSIVE T(_)
      T(i) == IF i = 0 THEN 0 ELSE IF st.hist[i] = PASS THEN 1 + T(i - 1) ELSE 0
  IN T(n)
Min3(n) == IF n < 3 THEN n ELSE 3
\* everything Step's control flow reads (not the first-to-name table)
ControlView == <<st.dealer, st.active, st.lastBidder, st.lastBid, st.calledX,
                 st.calledXX, st.avail, Min3(TrailingPasses), Min3(Len(st.hist))>>
\* ... plus the first-to-name table, which the contract reads
ContractView == <<ControlView, st.firstNamed, st.vul>>

StView == st

LegalNext == ~Done(st) /\ \E c \in st.avail : Take(c)
LegalSpec == Init /\ [][LegalNext]_vars
\* behaviour export (spec -> code): printed once per distinct state / at the
\* end of each simulated behaviour; run with -workers 1
ExportHist == PrintT(ToJson([d |-> st.dealer, v |-> st.vul, h |-> st.hist]))
ExportEnded == (Done(st) /\ res = "finished") => ExportHist
=============================================================================
