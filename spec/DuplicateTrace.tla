--------------------------- MODULE DuplicateTrace ---------------------------
(* Validates the real Table / Team enums against Duplicate.tla (growth).    *)
EXTENDS TraceBase, Bridge, Integers
VARIABLE z
D == INSTANCE Duplicate
VARIABLES i, nrej
tvars == <<z, i, nrej>>
Clauses(e) ==
  IF e.fn = "team.belong" THEN << <<"belong", e.out = D!Belong(e.seat, e.table)>> >>
  ELSE << <<"other", e.other = D!OtherTable(e.a)>>, <<"opponent", e.opp = D!Opponent(e.a)>>,
          <<"str", e.str = (IF e.a = 1 THEN "TABLE1" ELSE "TABLE2")>>,
          <<"tstr", e.tstr = (IF e.a = 1 THEN "TEAM1" ELSE "TEAM2")>> >>
TInit == i = 1 /\ nrej = 0 /\ z = 0
Consume == /\ i <= NTrace /\ i' = i + 1 /\ UNCHANGED z
           /\ LET e == Trace[i]
                  c == IF e.raised THEN "raised" ELSE AllFails(Clauses(e))
              IN IF c = "" THEN nrej' = nrej
                 ELSE Reject(e.tid, i, e.fn \o ":fail=" \o c) /\ nrej' = nrej + 1
Done == i = NTrace + 1 /\ Finish(NTrace, nrej) /\ i' = i + 1 /\ UNCHANGED <<z, nrej>>
TNext == Consume \/ Done
TSpec == TInit /\ [][TNext]_tvars
=============================================================================
