----------------------------- MODULE Duplicate -----------------------------
(***************************************************************************)
(* Growth beyond the listed properties: the duplicate-match vocabulary of  *)
(* bridge_env/table.py (Table, Team, Team.belong) and what a team match    *)
(* means for the scores of the two tables (Score!ContractScore, ImpScale).  *)
(*   TEAM1 sits N/S at TABLE1 and E/W at TABLE2; TEAM2 the other way.      *)
(***************************************************************************)
EXTENDS Bridge, Integers, ImpScale

Tables == {1, 2}
Teams == {1, 2}
OtherTable(t) == 3 - t
Opponent(tm) == 3 - tm
Belong(seat, table) == IF (table = 1) = (Side(seat) = 0) THEN 1 ELSE 2

\* design checks (TLC, complete domain)
TeamLaws ==
  /\ \A s \in Seats, t \in Tables :
        /\ Belong(s, t) \in Teams
        /\ Belong(Partner(s), t) = Belong(s, t)              \* partners are team mates
        /\ Belong(Left(s), t) = Opponent(Belong(s, t))       \* opponents at the table
        /\ Belong(s, OtherTable(t)) = Opponent(Belong(s, t)) \* a seat changes hands
  /\ \A t \in Tables : OtherTable(OtherTable(t)) = t /\ OtherTable(t) # t
  /\ \A tm \in Teams : Opponent(Opponent(tm)) = tm /\ Opponent(tm) # tm

\* the IMPs of team `tm` on a board: its N/S score at one table plus its
\* E/W score at the other (score_to_imp(first, second) adds the two)
TeamImps(nsScoreTable1, nsScoreTable2, tm) ==
  IF tm = 1 THEN Imps(nsScoreTable1 + (-nsScoreTable2))
  ELSE Imps((-nsScoreTable1) + nsScoreTable2)
ZeroSum == \A a, b \in {-7600, -800, -100, 0, 50, 420, 620, 2980} :
             TeamImps(a, b, 1) = -TeamImps(a, b, 2)

VARIABLE z
Spec == z = 0 /\ [][UNCHANGED z]_z
=============================================================================
