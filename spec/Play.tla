-------------------------------- MODULE Play --------------------------------
(***************************************************************************)
(* bridge_env.playing_phase as it is coded: PlayingPhase (no hands),       *)
(* PlayingPhaseWithHands (the table manager's full-information game) and   *)
(* ObservedPlayingPhase (one seat's replica: own hand plus dummy's once it *)
(* is disclosed), as ONE pure step function PStep(st, seat, card) over a   *)
(* record that mirrors the object's fields, with the code's own branch     *)
(* structure: calc_highest as a strict-< scan, first over the trump suit   *)
(* then over the suit led; the leader advanced by the index of the winner; *)
(* the bookkeeping after the fourth card in the code's order.              *)
(*                                                                         *)
(* The law-shaped oracle is PlayLaw; the invariants below say that the two *)
(* agree in every reachable state.  A product of one manager and four      *)
(* observers (C11) is explored by the same Next.                           *)
(***************************************************************************)
EXTENDS Bridge, PlayLaw, Integers, TLC, Json

CONSTANTS Deals,      \* set of deals explored; a deal is a function Seats -> set of cards
          Trumps,     \* strains explored (0..4)
          Decls,      \* declarers explored
          Revokes     \* TRUE: the manager may play any held card; FALSE: follow suit

NTricks == 13         \* has_done() is trick_num > 13, also on reduced packs

(* ------------------------- the state of an object ---------------------- *)
\* mode: "plain" PlayingPhase, "hands" PlayingPhaseWithHands,
\*       "obs" ObservedPlayingPhase(me)
InitPlay(mode, me, deal, trump, decl) ==
  [mode     |-> mode,
   me       |-> me,                      \* observer's seat (NoSeat otherwise)
   trump    |-> trump,
   decl     |-> decl,
   dummy    |-> Partner(decl),
   leader   |-> Left(decl),
   active   |-> Left(decl),
   trick    |-> <<>>,                    \* _trick_cards
   trickNum |-> 1,
   hist     |-> <<>>,                    \* playing_history.history
   used     |-> {},                      \* used_cards
   taken    |-> [d \in Sides |-> 0],     \* taken_tricks
   hands    |-> IF mode = "hands" THEN deal ELSE [s \in Seats |-> {}],
   own      |-> IF mode = "obs" THEN deal[me] ELSE {},      \* _hand
   dum      |-> {},                                          \* _dummy_hand
   dumSet   |-> FALSE]

PDone(st) == st.trickNum > NTricks        \* has_done()

\* calc_highest(suit, cards): 0-based index of the highest card of `suit`,
\* -1 if there is none (or suit is NT); a strict-< scan from the left
CalcHighest(suit, cards) ==
  IF suit = NT THEN -1
  ELSE LET RECURSIVE Scan(_, _, _)
           Scan(i, n, highest) ==
             IF i > Len(cards) THEN n
             ELSE IF CardSuit(cards[i]) # suit THEN Scan(i + 1, n, highest)
             ELSE IF highest < CardRank(cards[i])
                  THEN Scan(i + 1, i - 1, CardRank(cards[i]))
                  ELSE Scan(i + 1, n, highest)
       IN Scan(1, -1, -1)

\* _set_next_leader
NextLeader(leader, trump, cards) ==
  LET i0 == CalcHighest(trump, cards)
      i  == IF i0 < 0 THEN CalcHighest(CardSuit(cards[1]), cards) ELSE i0
  IN SeatAfter(leader, i)

\* PlayingPhase.play_card(card)
PlayCard(st, c) ==
  LET tr == Append(st.trick, c)
      s1 == [st EXCEPT !.used = @ \cup {c}]
  IN IF Len(tr) = 4
     THEN LET nl == NextLeader(st.leader, st.trump, tr)
          IN [s1 EXCEPT !.hist = Append(@, [leader |-> st.leader, cards |-> tr]),
                        !.leader = nl,
                        !.taken[Side(nl)] = @ + 1,
                        !.active = nl,
                        !.trickNum = @ + 1,
                        !.trick = <<>>]
     ELSE [s1 EXCEPT !.trick = tr, !.active = Left(@)]

Refuse(st, why) == [st |-> st, res |-> "raises", why |-> why]
Accept(st)      == [st |-> st, res |-> "ok", why |-> ""]

\* play_card_by_player(card, player) of the three classes
PStep(st, s, c) ==
  IF s # st.active THEN Refuse(st, "turn")
  ELSE IF st.mode = "plain" THEN Accept(PlayCard(st, c))
  ELSE IF st.mode = "hands" THEN
         IF c \notin st.hands[s] THEN Refuse(st, "card")
         ELSE Accept(PlayCard([st EXCEPT !.hands[s] = @ \ {c}], c))
  ELSE \* "obs"
       IF s = st.me THEN
            IF c \notin st.own THEN Refuse(st, "card")
            ELSE Accept(PlayCard([st EXCEPT !.own = @ \ {c}], c))
       ELSE IF s = st.dummy THEN
            IF ~st.dumSet THEN Refuse(st, "dummy-not-set")
            ELSE IF c \notin st.dum THEN Refuse(st, "card")
            ELSE Accept(PlayCard([st EXCEPT !.dum = @ \ {c}], c))
       ELSE Accept(PlayCard(st, c))

SetDummy(st, hand) == [st EXCEPT !.dum = hand, !.dumSet = TRUE]

\* available_cards(hand, first_card) / current_available_cards(hand)
AvailableCards(hand, first) ==
  IF first = NoCard THEN hand
  ELSE LET same == {c \in hand : CardSuit(c) = CardSuit(first)}
       IN IF same = {} THEN hand ELSE same
FirstCard(st) == IF st.trick = <<>> THEN NoCard ELSE st.trick[1]
CurrentAvailable(st, hand) == AvailableCards(hand, FirstCard(st))

\* the flat list of accepted plays, reconstructed from the object's fields
RECURSIVE FlatHist(_, _)
FlatHist(h, k) == IF k = 0 THEN <<>> ELSE FlatHist(h, k - 1) \o h[k].cards
Plays(st) == FlatHist(st.hist, Len(st.hist)) \o st.trick

(* ------------------------------ behaviours ----------------------------- *)
VARIABLES m,      \* the table manager's PlayingPhaseWithHands
          obs,    \* the four ObservedPlayingPhase replicas (function of seat)
          deal,   \* the original deal
          ores    \* result of the last play in each replica
vars == <<m, obs, deal, ores>>

Init == \E dl \in Deals, t \in Trumps, d \in Decls :
          /\ deal = dl
          /\ m = InitPlay("hands", NoSeat, dl, t, d)
          /\ obs = [s \in Seats |-> InitPlay("obs", s, dl, t, d)]
          /\ ores = [s \in Seats |-> "ok"]

\* the manager accepts card c from the seat on turn; every replica is fed the
\* same play; dummy's hand is disclosed to every seat but dummy after the
\* opening lead (client.py / server.py)
Play(c) ==
  LET s  == m.active
      r  == PStep(m, s, c)
      ro == [o \in Seats |-> PStep(obs[o], s, c)]
      open == Len(Plays(m)) = 0            \* this is the opening lead
  IN /\ r.res = "ok"
     /\ m' = r.st
     /\ ores' = [o \in Seats |-> ro[o].res]
     /\ obs' = [o \in Seats |->
                  IF open /\ o # m.dummy
                  THEN SetDummy(ro[o].st, r.st.hands[m.dummy])
                  ELSE ro[o].st]
     /\ UNCHANGED deal

Choices == IF Revokes THEN m.hands[m.active]
           ELSE CurrentAvailable(m, m.hands[m.active])

Next == \E c \in Choices : Play(c)
Spec == Init /\ [][Next]_vars

(* ------------------------------ properties ----------------------------- *)
L_plays == Plays(m)

TypeOK ==
  /\ m.active \in Seats /\ m.leader \in Seats
  /\ m.trickNum \in 1..14
  /\ Len(m.trick) \in 0..3

\* C04: opening lead, clockwise turns, winner leads, credit, history, totals
OpeningIsLaw ==
  Len(L_plays) = 0 => /\ m.leader = LawOpeningLeader(m.decl)
                       /\ m.active = m.leader /\ m.dummy = LawDummy(m.decl)
TurnIsLaw    == m.active = LawTurn(m.decl, m.trump, L_plays)
LeaderIsLaw  == m.leader = LawLeader(m.decl, m.trump, L_plays, NumTricks(L_plays) + 1)
TakenIsLaw   == \A d \in Sides : m.taken[d] = LawTaken(m.decl, m.trump, L_plays, d)
HistoryIsLaw == m.hist = LawHistory(m.decl, m.trump, L_plays)
CountsAddUp  == /\ m.taken[0] + m.taken[1] = m.trickNum - 1
                /\ m.trickNum - 1 = NumTricks(L_plays)
                /\ m.trick = CurrentTrick(L_plays)
\* one trick credited per completed trick, to the winner's side (action)
OneCreditPerTrick ==
  [][LET k == NumTricks(Plays(m')) IN
       IF k = NumTricks(Plays(m)) THEN m'.taken = m.taken
       ELSE LET w == Side(LawTrickWinner(m.decl, m.trump, Plays(m'), k))
            IN m'.taken = [m.taken EXCEPT ![w] = @ + 1]]_vars

\* C05: possession, conservation
HandsAreLaw == \A s \in Seats :
                 m.hands[s] = LawHolding(deal, m.decl, m.trump, L_plays, s)
Conservation ==
  /\ \A s \in Seats : m.hands[s] \cup LawPlayedBy(m.decl, m.trump, L_plays, s) = deal[s]
  /\ \A s \in Seats : m.hands[s] \cap m.used = {}
  /\ m.used = Range(L_plays)
  /\ Cardinality(m.used) = Len(L_plays)                 \* no card twice
  /\ (UNION {m.hands[s] : s \in Seats}) \cup m.used = UNION {deal[s] : s \in Seats}
\* accepted iff on turn and held - for EVERY (seat, card) offered in every state
AcceptedIffLaw ==
  [][\A s \in Seats, c \in UNION {deal[x] : x \in Seats} :
        (PStep(m, s, c).res = "ok")
           <=> (s = LawTurn(m.decl, m.trump, Plays(m))
                /\ c \in LawHolding(deal, m.decl, m.trump, Plays(m), s))]_vars
RefusedUnchanged ==
  [][\A s \in Seats, c \in UNION {deal[x] : x \in Seats} :
        PStep(m, s, c).res = "raises" => PStep(m, s, c).st = m]_vars

\* C06: the playable set is the follow-suit rule (own hand and dummy's)
PlayableIsLaw ==
  \A s \in Seats :
     /\ CurrentAvailable(m, m.hands[s]) = LawPlayable(m.hands[s], LawLed(L_plays))
     /\ CurrentAvailable(m, m.hands[s]) \subseteq m.hands[s]
     /\ (m.hands[s] # {} => CurrentAvailable(m, m.hands[s]) # {})

\* C11: replicas agree with the manager and never refuse what it accepted
Public(st) == <<st.trump, st.decl, st.dummy, st.leader, st.active, st.trickNum,
                st.hist, st.taken, st.used, st.trick>>
ReplicasAgree == \A o \in Seats : Public(obs[o]) = Public(m)
ReplicasAccept == \A o \in Seats : ores[o] = "ok"
ReplicaHands ==
  \A o \in Seats :
     /\ obs[o].own = m.hands[o]
     /\ (obs[o].dumSet <=> (Len(L_plays) >= 1 /\ o # m.dummy))
     /\ obs[o].dumSet => obs[o].dum = m.hands[m.dummy]

(* ------------- the winner table on a pack given by the config ---------- *)
\* code-shaped winner = law-shaped winner for every trick of distinct cards
Tuples4(P) == {t \in [1..4 -> P] : \A i, j \in 1..4 : i # j => t[i] # t[j]}
WinnerAgrees(P) ==
  \A t \in Tuples4(P), tr \in Strains :
     NextLeader(0, tr, t) = SeatAfter(0, LawWinnerPos(t, tr) - 1)
\* playable sets agree for every hand (subset of P) and every led card
PlayableAgrees(P) ==
  \A h \in SUBSET P, l \in P \cup {NoCard} :
     AvailableCards(h, l) = LawPlayable(h, l)

(* ------------------------- deals of a reduced pack ---------------------- *)
AllDeals(P, k) ==
  LET H == {h \in SUBSET P : Cardinality(h) = k}
  IN {d \in [Seats -> H] : \A a, b \in Seats : a # b => d[a] \cap d[b] = {}}

(* ------------------------------- export -------------------------------- *)
SetToSeq(S) == LET RECURSIVE F(_)
                   F(T) == IF T = {} THEN <<>>
                           ELSE LET x == CHOOSE y \in T : \A z \in T : y <= z
                                IN <<x>> \o F(T \ {x})
               IN F(S)
ExportBehaviour ==
  PrintT(ToJson([deal |-> [s \in Seats |-> SetToSeq(deal[s])],
                 trump |-> m.trump, decl |-> m.decl, plays |-> L_plays]))
\* printed when no further play is possible (all hands empty)
ExportAtEnd == (\A s \in Seats : m.hands[s] = {}) => ExportBehaviour
=============================================================================
