------------------------------ MODULE PlayLaw ------------------------------
(***************************************************************************)
(* The play of the cards as the Laws of Duplicate Bridge state it (Laws    *)
(* 41, 44, 45), written as pure functions of the declarer, the trump       *)
(* strain, the original deal and the flat list of cards played so far.     *)
(* Nothing here is incremental.  This module is the oracle for C04, C05,   *)
(* C06 and C11; the code-shaped model in Play.tla never uses it in its     *)
(* step function.                                                          *)
(***************************************************************************)
EXTENDS Bridge

(* Law 44: a trick containing a trump is won by the highest trump played;  *)
(* otherwise by the highest card of the suit led.  `cards` are the four    *)
(* (distinct) cards in the order played; the result is the 1-based         *)
(* position of the winning card.  trump = NT (4) matches no card suit.     *)
LawWinnerPos(cards, trump) ==
  LET trumps == {i \in 1..4 : CardSuit(cards[i]) = trump}
      led    == {i \in 1..4 : CardSuit(cards[i]) = CardSuit(cards[1])}
      pool   == IF trumps # {} THEN trumps ELSE led
  IN CHOOSE i \in pool : \A j \in pool : CardRank(cards[j]) <= CardRank(cards[i])

(* Law 41: the opening lead is made by the seat on declarer's left,        *)
(* declarer's partner is dummy.                                            *)
LawOpeningLeader(decl) == Left(decl)
LawDummy(decl) == Partner(decl)

NumTricks(plays) == Len(plays) \div 4
TrickCards(plays, k) == SubSeq(plays, 4 * k - 3, 4 * k)     \* k-th complete trick
CurrentTrick(plays) == SubSeq(plays, 4 * NumTricks(plays) + 1, Len(plays))

(* Law 44 G: the winner of a trick leads to the next one.                  *)
\* leader of trick k (1-based; k may be NumTricks + 1 = the trick in progress)
RECURSIVE LawLeader(_, _, _, _)
LawLeader(decl, trump, plays, k) ==
  IF k = 1 THEN LawOpeningLeader(decl)
  ELSE SeatAfter(LawLeader(decl, trump, plays, k - 1),
                 LawWinnerPos(TrickCards(plays, k - 1), trump) - 1)
LawTrickWinner(decl, trump, plays, k) == LawLeader(decl, trump, plays, k + 1)

\* the seat that played (or is to play) the i-th card (1-based)
LawSeatOfPlay(decl, trump, plays, i) ==
  LET k == ((i - 1) \div 4) + 1
  IN SeatAfter(LawLeader(decl, trump, plays, k), (i - 1) % 4)
\* the seat to play next
LawTurn(decl, trump, plays) == LawSeatOfPlay(decl, trump, plays, Len(plays) + 1)

\* tricks won by a side
LawTaken(decl, trump, plays, side) ==
  Cardinality({k \in 1..NumTricks(plays) :
                 Side(LawTrickWinner(decl, trump, plays, k)) = side})

\* the record of the completed tricks
LawHistory(decl, trump, plays) ==
  [k \in 1..NumTricks(plays) |->
     [leader |-> LawLeader(decl, trump, plays, k),
      cards  |-> TrickCards(plays, k)]]

\* cards played by seat s so far, and what s still holds of its dealt hand
LawPlayedBy(decl, trump, plays, s) ==
  {plays[i] : i \in {j \in 1..Len(plays) : LawSeatOfPlay(decl, trump, plays, j) = s}}
LawHolding(deal, decl, trump, plays, s) ==
  deal[s] \ LawPlayedBy(decl, trump, plays, s)

(* Law 44 C: a player must follow suit if possible.  `led` is the card     *)
(* led to the trick, NoCard when the player is on lead.                    *)
NoCard == 52
LawPlayable(hand, led) ==
  {c \in hand : \/ led = NoCard
                \/ CardSuit(c) = CardSuit(led)
                \/ ~\E d \in hand : CardSuit(d) = CardSuit(led)}
LawLed(plays) == IF CurrentTrick(plays) = <<>> THEN NoCard
                 ELSE CurrentTrick(plays)[1]
=============================================================================
