------------------------------ MODULE ImpScale ------------------------------
(***************************************************************************)
(* The International Match Point scale (Law 78 B) as a function of ANY     *)
(* integer point difference, and the proofs (TLAPS) that it is odd,        *)
(* monotone, bounded by 24 and saturated from 4000 up - for every integer, *)
(* which no finite exploration can give (C16).  Score.tla re-checks the    *)
(* same statements with TLC on a finite range and compares this step       *)
(* function with the declarative "number of thresholds not exceeding |d|". *)
(***************************************************************************)
EXTENDS Integers, TLAPS

Abs(x) == IF x < 0 THEN -x ELSE x

\* IMPs for a non-negative difference a
Scale(a) ==
  IF a < 20 THEN 0 ELSE IF a < 50 THEN 1 ELSE IF a < 90 THEN 2
  ELSE IF a < 130 THEN 3 ELSE IF a < 170 THEN 4 ELSE IF a < 220 THEN 5
  ELSE IF a < 270 THEN 6 ELSE IF a < 320 THEN 7 ELSE IF a < 370 THEN 8
  ELSE IF a < 430 THEN 9 ELSE IF a < 500 THEN 10 ELSE IF a < 600 THEN 11
  ELSE IF a < 750 THEN 12 ELSE IF a < 900 THEN 13 ELSE IF a < 1100 THEN 14
  ELSE IF a < 1300 THEN 15 ELSE IF a < 1500 THEN 16 ELSE IF a < 1750 THEN 17
  ELSE IF a < 2000 THEN 18 ELSE IF a < 2250 THEN 19 ELSE IF a < 2500 THEN 20
  ELSE IF a < 3000 THEN 21 ELSE IF a < 3500 THEN 22 ELSE IF a < 4000 THEN 23
  ELSE 24

Imps(d) == IF d >= 0 THEN Scale(d) ELSE -Scale(-d)

THEOREM ImpsOdd == \A d \in Int : Imps(-d) = -Imps(d)
  BY SMT DEF Imps, Scale

THEOREM ImpsMonotone == \A d, e \in Int : d <= e => Imps(d) <= Imps(e)
  BY SMT DEF Imps, Scale

THEOREM ImpsRange == \A d \in Int : Imps(d) \in Int /\ -24 <= Imps(d) /\ Imps(d) <= 24
  BY SMT DEF Imps, Scale

THEOREM ImpsSaturation ==
  \A d \in Int : /\ d >= 4000 => Imps(d) = 24
                 /\ d <= -4000 => Imps(d) = -24
                 /\ (-20 < d /\ d < 20) => Imps(d) = 0
  BY SMT DEF Imps, Scale
=============================================================================
