------------------------------ MODULE JsonLog ------------------------------
(***************************************************************************)
(* The streaming JSON writers (JsonWriter / JsonLogWriter /                *)
(* JsonBoardSettingWriter) as a state machine over the chunks they emit,   *)
(* the content of one log item / one board-setting item as a function of   *)
(* the values written (through Notation.tla), the published schemas        *)
(* transcribed as path -> admissible JSON types, and the round-trip        *)
(* relation between written and parsed records.  C12, C13 (document),      *)
(* C17 (JSON half).                                                        *)
(***************************************************************************)
EXTENDS Bridge, Integers, Notation

(* ------------------------- the writer machine -------------------------- *)
OpenText(tag) == "{\"" \o tag \o "\": [\n"
SepText == ",\n"
CloseEmpty == "]}"
CloseText == "\n]}"

\* abstract state of a JsonWriter: is_open, first_line, emitted chunk kinds
InitW == [open |-> FALSE, first |-> FALSE, out |-> <<>>]
OpenW(w)  == [open |-> TRUE, first |-> TRUE, out |-> Append(w.out, "OPEN")]
\* write(): raises when not open; otherwise (separator) item
WriteW(w) == IF ~w.open THEN w
             ELSE [w EXCEPT !.first = FALSE,
                            !.out = IF w.first THEN Append(@, "ITEM")
                                    ELSE @ \o <<"SEP", "ITEM">>]
CloseW(w) == [w EXCEPT !.open = FALSE,
                       !.out = Append(@, IF w.first THEN "CLOSE0" ELSE "CLOSE")]

\* OPEN (ITEM (SEP ITEM)*)? CLOSE, with CLOSE0 exactly when there is no item
RECURSIVE Items(_, _)
Items(s, k) ==      \* s[k..] is  (SEP ITEM)* CLOSE
  IF k = Len(s) THEN s[k] = "CLOSE"
  ELSE k + 2 <= Len(s) /\ s[k] = "SEP" /\ s[k + 1] = "ITEM" /\ Items(s, k + 2)
WellFormedDoc(s) ==
  /\ Len(s) >= 2 /\ s[1] = "OPEN"
  /\ \/ (Len(s) = 2 /\ s[2] = "CLOSE0")
     \/ (Len(s) >= 3 /\ s[2] = "ITEM" /\ Items(s, 3))
NumItems(s) == Cardinality({k \in 1..Len(s) : s[k] = "ITEM"})

VARIABLES w, nwrites
vars == <<w, nwrites>>
MaxWrites == 4
Init == w = InitW /\ nwrites = 0
Open == ~w.open /\ w.out = <<>> /\ w' = OpenW(w) /\ UNCHANGED nwrites
Write == w.open /\ nwrites < MaxWrites /\ w' = WriteW(w) /\ nwrites' = nwrites + 1
Close == w.open /\ w' = CloseW(w) /\ UNCHANGED nwrites
Next == Open \/ Write \/ Close
Spec == Init /\ [][Next]_vars
ClosedIsWellFormed ==
  (~w.open /\ w.out # <<>>) => WellFormedDoc(w.out) /\ NumItems(w.out) = nwrites
OpenIsPrefix ==      \* while open the output is a proper prefix of a document
  w.open => ~WellFormedDoc(w.out) /\ WellFormedDoc(CloseW(w).out)

(* --------------------- content of the JSON items ----------------------- *)
\* A written board result is given in the integer encoding:
\*   id, names (code points), dealer, deal (4 sets), bids, contract
\*   [bid, x, xx, vul, decl], play (none or list of [leader, cards]),
\*   taken (none or int), scoring (text), scores <<ns, ew>>, dda (none or
\*   4 x 5 integers)
None == [none |-> TRUE]
IsNone(x) == "none" \in DOMAIN x
Nullable(x) == IF IsNone(x) THEN [null |-> TRUE] ELSE [v |-> x.v]

DblOf(x, xx) == IF xx THEN 2 ELSE IF x THEN 1 ELSE 0
PassedOutBid(b) == b = NoCall \/ b = PASS
DealLists(deal) == [s \in 1..4 |-> JsonHand(deal[s])]
SeqMap(f(_), s) == [k \in 1..Len(s) |-> f(s[k])]
TrickItem(t) == [leader |-> SeatShort[t.leader + 1], cards |-> SeqMap(CardStr, t.cards)]

\* what JsonLogWriter.write must emit for `r` (nullable fields wrapped)
LogItem(r) ==
  [players |-> r.names, board_id |-> r.id,
   dealer |-> SeatShort[r.dealer + 1],
   deal |-> DealLists(r.deal),
   vulnerability |-> VulStr[r.contract.vul + 1],
   bid_history |-> SeqMap(CallStr, r.bids),
   contract |-> ContractStr(IF PassedOutBid(r.contract.bid) THEN NoCall ELSE r.contract.bid,
                            DblOf(r.contract.x, r.contract.xx)),
   declarer |-> IF PassedOutBid(r.contract.bid) THEN [null |-> TRUE]
                ELSE [v |-> SeatShort[r.contract.decl + 1]],
   play_history |-> IF IsNone(r.play) THEN [null |-> TRUE]
                    ELSE [v |-> SeqMap(TrickItem, r.play.v)],
   taken_trick |-> Nullable(r.taken),
   score_type |-> r.scoring,
   scores |-> r.scores,
   dda |-> r.dda]
SettingItem(r) ==
  [board_id |-> r.id, dealer |-> SeatShort[r.dealer + 1],
   deal |-> DealLists(r.deal), vulnerability |-> VulStr[r.vul + 1], dda |-> r.dda]

(* ------------------ the published schemas, transcribed ----------------- *)
HandPaths(p) == {<<p, {"array"}>>, <<p \o "[]", {"string"}>>}
DdaPaths(p) ==
  {<<p, {"object"}>>} \cup
  UNION {{<<p \o "." \o s, {"object"}>>} \cup
           {<<p \o "." \o s \o "." \o t, {"integer"}>> : t \in {"C", "D", "H", "S", "NT"}}
         : s \in {"N", "E", "S", "W"}}
CommonPaths ==
  {<<"board_id", {"string"}>>, <<"dealer", {"string"}>>, <<"deal", {"object"}>>,
   <<"vulnerability", {"string"}>>}
  \cup UNION {HandPaths("deal." \o s) : s \in {"N", "E", "S", "W"}}
  \cup DdaPaths("dda")
LogPaths ==
  CommonPaths \cup
  {<<"players", {"object"}>>, <<"players.N", {"string"}>>, <<"players.E", {"string"}>>,
   <<"players.S", {"string"}>>, <<"players.W", {"string"}>>,
   <<"bid_history", {"array"}>>, <<"bid_history[]", {"string"}>>,
   <<"contract", {"string"}>>, <<"declarer", {"string", "null"}>>,
   <<"play_history", {"array", "null"}>>, <<"play_history[]", {"object"}>>,
   <<"play_history[].leader", {"string"}>>, <<"play_history[].cards", {"array"}>>,
   <<"play_history[].cards[]", {"string"}>>,
   <<"taken_trick", {"integer", "null"}>>, <<"score_type", {"string"}>>,
   <<"scores", {"object"}>>, <<"scores.NS", {"integer"}>>, <<"scores.EW", {"integer"}>>}
LogRequired == {"board_id", "dealer", "deal", "vulnerability", "declarer",
                "contract", "taken_trick", "deal.N", "deal.E", "deal.S", "deal.W"}
SettingPaths == CommonPaths
SettingRequired == {"board_id", "dealer", "deal", "vulnerability",
                    "deal.N", "deal.E", "deal.S", "deal.W"}
\* paths: set of <<path, JSON type>> observed in one item
SchemaOK(paths, schema, required) ==
  /\ \A pt \in paths : \A st \in schema : st[1] = pt[1] => pt[2] \in st[2]
  /\ \A rq \in required : \E pt \in paths : pt[1] = rq
  /\ \A pt \in paths : \A s \in {"N", "E", "S", "W"} :
        pt[1] = "dda." \o s =>
          \A t \in {"C", "D", "H", "S", "NT"} : \E q \in paths : q[1] = pt[1] \o "." \o t
=============================================================================
