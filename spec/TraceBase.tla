------------------------------ MODULE TraceBase ------------------------------
(***************************************************************************)
(* Common part of all trace specifications (code -> spec conformance).     *)
(*                                                                         *)
(* A trace file is newline-delimited JSON, one event per line, written by  *)
(* the harness while it drives the real implementation.  Its path is       *)
(* passed in the environment variable TRACE_FILE.  Events carry            *)
(*   tid : id of the independent trace the event belongs to                *)
(*   ev  : name of the action                                              *)
(* plus arguments, result and projected post-state.                        *)
(*                                                                         *)
(* Verdicts are total: a trace specification never fails on a bad event;   *)
(* it prints a JSON record {verdict: "REJECT", line, clause} and skips to the next       *)
(* trace, so that one defect does not hide the rest of the file.  When the *)
(* whole file has been consumed it prints  <<"DONE", lines, rejects>>.     *)
(* JSON null never appears (the Json module rejects it): absent values     *)
(* are [none |-> TRUE].                                                    *)
(***************************************************************************)
EXTENDS Naturals, Sequences, TLC, Json, IOUtils

Trace == ndJsonDeserialize(IOEnv.TRACE_FILE)
NTrace == Len(Trace)

\* printed as one JSON string: TLC wraps long tuples over several lines
Reject(tid, line, clause) ==
  PrintT(ToJson([verdict |-> "REJECT", line |-> line, clause |-> clause]))
Finish(lines, rejects) == PrintT(<<"DONE", lines, rejects>>)

\* first failing clause of a sequence of <<name, bool>> pairs, "" if none
FirstFail(checks) ==
  LET bad == {k \in 1..Len(checks) : ~checks[k][2]}
  IN IF bad = {} THEN ""
     ELSE checks[CHOOSE k \in bad : \A j \in bad : k <= j][1]

\* all failing clauses, comma separated, "" if none
AllFails(checks) ==
  LET RECURSIVE F(_)
      F(k) == IF k > Len(checks) THEN ""
              ELSE IF checks[k][2] THEN F(k + 1)
              ELSE LET rest == F(k + 1)
                   IN IF rest = "" THEN checks[k][1]
                      ELSE checks[k][1] \o "," \o rest
  IN F(1)

SeqRange(s) == {s[k] : k \in 1..Len(s)}
IsNone(x) == "none" \in DOMAIN x
=============================================================================
