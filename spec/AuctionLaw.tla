----------------------------- MODULE AuctionLaw -----------------------------
(***************************************************************************)
(* The auction as the Laws of Duplicate Bridge state it (Laws 17-22,       *)
(* 36-40), written as pure functions of the dealer and of the whole call   *)
(* history.  Nothing here is incremental: every operator re-reads the      *)
(* history.  This module is the oracle for C01, C02 and C03; the           *)
(* code-shaped model in Auction.tla never uses it in its actions.          *)
(***************************************************************************)
EXTENDS Bridge

\* the seat that makes the i-th call (1-based) when d deals
Caller(d, i) == SeatAfter(d, i - 1)
\* the seat to call next after history h
LawNextSeat(d, h) == SeatAfter(d, Len(h))

BidPositions(h) == {i \in 1..Len(h) : IsBid(h[i])}
NonPassPositions(h) == {i \in 1..Len(h) : h[i] # PASS}
Max0(S) == IF S = {} THEN 0 ELSE CHOOSE m \in S : \A x \in S : x <= m
Min0(S) == IF S = {} THEN 0 ELSE CHOOSE m \in S : \A x \in S : m <= x
\* position of the last call satisfying P, 0 if none (a scan from the end;
\* equal to Max0 of the set of such positions, checked by LastPosIsMax)
LastPos(h, P(_)) ==
  LET RECURSIVE F(_)
      F(i) == IF i = 0 THEN 0 ELSE IF P(h[i]) THEN i ELSE F(i - 1)
  IN F(Len(h))
NonPass(c) == c # PASS
LastBidPos(h)     == LastPos(h, IsBid)
LastNonPassPos(h) == LastPos(h, NonPass)
LastPosIsMax(h) == /\ LastBidPos(h) = Max0(BidPositions(h))
                   /\ LastNonPassPos(h) = Max0(NonPassPositions(h))

(* Law 22: the auction ends when four passes open it, or when three       *)
(* consecutive passes follow any bid, double or redouble.                 *)
LawEnded(h) ==
  \/ Len(h) >= 4 /\ \A i \in 1..4 : h[i] = PASS
  \/ \E k \in 1..Len(h) : /\ h[k] # PASS
                          /\ k + 3 <= Len(h)
                          /\ h[k+1] = PASS /\ h[k+2] = PASS /\ h[k+3] = PASS

(* Laws 18, 19: the calls the next seat may make after h (h not ended).    *)
LawLegalGiven(d, h, me, lb, ln, c) ==
      \/ c = PASS
      \/ IsBid(c) /\ (lb = 0 \/ c > h[lb])
      \/ /\ c = DBL                 \* only an opponent's last bid, undoubled
         /\ ln > 0 /\ IsBid(h[ln])
         /\ ~SameSide(Caller(d, ln), me)
      \/ /\ c = RDBL                \* only an opponent's double of our bid
         /\ ln > 0 /\ h[ln] = DBL
         /\ ~SameSide(Caller(d, ln), me)
         /\ lb > 0 /\ SameSide(Caller(d, lb), me)
LawLegalCall(d, h, c) ==
  LawLegalGiven(d, h, LawNextSeat(d, h), LastBidPos(h), LastNonPassPos(h), c)
LawLegal(d, h) ==
  LET me == LawNextSeat(d, h)
      lb == LastBidPos(h)
      ln == LastNonPassPos(h)
  IN {c \in Calls : LawLegalGiven(d, h, me, lb, ln, c)}

(* Law 22/40: the final contract.                                          *)
LawPassedOut(h) == BidPositions(h) = {}
LawFinalBid(h)  == h[LastBidPos(h)]
LawDoubled(h)   == \E k \in 1..Len(h) : k > LastBidPos(h) /\ h[k] = DBL
LawRedoubled(h) == \E k \in 1..Len(h) : k > LastBidPos(h) /\ h[k] = RDBL
(* Declarer: of the side that made the last bid, the member who first      *)
(* named the denomination of that bid, anywhere in the auction.            *)
LawDeclarer(d, h) ==
  LET lb   == LastBidPos(h)
      side == Side(Caller(d, lb))
      den  == Strain(h[lb])
      named == {i \in BidPositions(h) :
                   Strain(h[i]) = den /\ Side(Caller(d, i)) = side}
  IN  Caller(d, Min0(named))

NoContract == [none |-> TRUE]
LawContract(d, v, h) ==
  IF ~LawEnded(h) THEN NoContract
  ELSE IF LawPassedOut(h)
       THEN [bid |-> NoCall, x |-> FALSE, xx |-> FALSE, vul |-> v,
             decl |-> NoSeat]
       ELSE [bid |-> LawFinalBid(h), x |-> LawDoubled(h),
             xx |-> LawRedoubled(h), vul |-> v, decl |-> LawDeclarer(d, h)]

\* a seat's own calls are its share of the common history, in order
LawShare(d, h, s) ==
  LET RECURSIVE Sh(_)
      Sh(i) == IF i = 0 THEN <<>>
               ELSE IF Caller(d, i) = s THEN Append(Sh(i - 1), h[i])
                    ELSE Sh(i - 1)
  IN Sh(Len(h))
=============================================================================
