--------------------------- MODULE TableSkelTrace ---------------------------
(***************************************************************************)
(* Binds the SYNCHRONISATION SKELETON of the real server to Table.tla.     *)
(*                                                                         *)
(* A trace is the sequence of blocks the baton scheduled for the server's  *)
(* threads in one real session: (thread, operation) with thread "main" or  *)
(* "seatK" (K-th accepted connection, 0-based) and operation the blocking  *)
(* / racy primitive the thread was about to execute (accept, thread.start, *)
(* ev.wait, ev.wake, ev.set, ev.clear, sleep, is_alive, bar.enter,         *)
(* bar.wait, q.get, join, begin).  recv blocks are not part of the trace   *)
(* (the model folds conforming clients into the seat threads, and whether  *)
(* a recv blocks depends on the client's speed).                           *)
(*                                                                         *)
(* Every label of Table.tla carries a signature: the operation it starts   *)
(* with, or "silent" (no scheduling point of its own: puts, sends, file    *)
(* writes, control flow).  The trace is accepted iff it can be consumed    *)
(* event by event by steps of Table in which the named thread executes a   *)
(* label with that signature, silent labels of the same thread in between  *)
(* (TLC infers the labels).  Configuration (requests, boards, decision     *)
(* script at full length, NTricksM = 13) comes from the session.           *)
(* Acceptance is reported by the violation of NotConsumed.                 *)
(***************************************************************************)
EXTENDS Table, Json, IOUtils

VARIABLE l
Trace == ndJsonDeserialize(IOEnv.TRACE_FILE)
NTrace == Len(Trace)
tvars == <<vars, l>>

\* (labels that are loop heads are silent when they only leave the loop)
Sig(label) ==
  CASE label = "m_accept" -> (IF AllSeated THEN "silent" ELSE "accept")
    [] label = "m_start" -> "thread.start"
    [] label = "m_ev_wait" -> "ev.wait"   [] label = "m_ev_wake" -> "ev.wake"
    [] label = "m_sleep_adm" -> "sleep"   [] label = "m_alive" -> "is_alive"
    [] label = "m_ev_clear" -> "ev.clear" [] label = "m_call" -> "q.get"
    [] label = "m_sleep_trick" -> "sleep" [] label = "m_card" -> "q.get"
    [] label = "m_join" -> (IF j > Len(threads) THEN "silent" ELSE "join")
    [] label \in {"sm_enter", "ss_enter"} -> "bar.enter"
    [] label \in {"sm_wait", "ss_wait"} -> "bar.wait"
    [] label = "p_begin" -> "begin"
    [] label \in {"p_ev_set", "p_ev_set_rej"} -> "ev.set"
    [] label \in {"p_hdr", "p_hand", "p_turn", "p_relay", "p_po", "p_decl", "p_leader",
                  "p_cardrelay", "p_dummy", "p_status"} -> "q.get"
    [] OTHER -> "silent"

ProcOf(th) == th       \* the harness sends the process id: 0 = main, K + 1 = K-th connection
StepOf(p) == IF p = 0 THEN (Main \/ SyncMain(0)) ELSE (Req(p) \/ SyncSeat(p))

TInit == Init /\ l = 1 /\ TLCSet(1, 1)

Consume ==
  /\ l <= NTrace
  /\ \/ LET e == Trace[l]                  \* the block the baton scheduled next
            p == ProcOf(e.th)
        IN pc[p] # "Done" /\ Sig(pc[p]) = e.op /\ StepOf(p) /\ l' = l + 1
     \/ \E p \in Threads :                  \* a step without a scheduling point
          pc[p] # "Done" /\ Sig(pc[p]) = "silent" /\ StepOf(p) /\ l' = l
\* once the trace is consumed nothing more is asked
TNext == Consume
TSpec == TInit /\ [][TNext]_tvars

\* "violated" = the whole trace has been consumed = ACCEPTED
NotConsumed == l <= NTrace
\* progress register for the diagnosis of a rejected trace (workers = 1)
Track == IF l > TLCGet(1) THEN TLCSet(1, l) ELSE TRUE
Reached == PrintT(<<"REACHED", TLCGet(1), NTrace>>)
=============================================================================
