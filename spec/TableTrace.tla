----------------------------- MODULE TableTrace -----------------------------
(***************************************************************************)
(* Validates complete sessions of the real table manager, run under the    *)
(* baton with real bundled Clients (or raw requesters during admission),   *)
(* against the observable specification TableObs.tla.  One event per       *)
(* session (C08, C09 outcome, C10, C11 network, C13, C20):                 *)
(*   boards, teams, decs   configuration and the seats' decisions with the *)
(*                         exact texts put on the wire                     *)
(*   s2c, c2s              the lines of each of the four connections       *)
(*   file                  the output file: present, json_ok, items        *)
(*                         (normalised as in JsonLogTrace), keys_ok        *)
(*   done                  verdict of the scheduler and fate of threads    *)
(*   replicas              contract / play state each client ended with    *)
(*   kind                  "normal" | "abort" | "admission"                *)
(*   completed             boards that were finished (abort)               *)
(*   requests, raw         admission: arrival order and raw requesters     *)
(***************************************************************************)
EXTENDS TraceBase, Bridge, Integers

VARIABLES st, res, m, obs, deal, ores, bid, dbl, bvul, decl, tricks, w, nwrites
T == INSTANCE TableObs

VARIABLES i, nrej
tvars == <<st, res, m, obs, deal, ores, bid, dbl, bvul, decl, tricks, w, nwrites, i, nrej>>

\* index of the first difference of two sequences (0: equal)
FirstDiff(a, b) ==
  LET n == IF Len(a) < Len(b) THEN Len(a) ELSE Len(b)
      D == {k \in 1..n : a[k] # b[k]}
  IN IF D # {} THEN CHOOSE k \in D : \A j \in D : k <= j
     ELSE IF Len(a) = Len(b) THEN 0 ELSE n + 1
SeatTag(s) == T!SeatShort[s + 1]

StreamClauses(e, name, got, want(_)) ==
  [s \in 1..4 |->
     LET d == FirstDiff(got[s], want(s - 1))
     IN <<name \o "-" \o SeatTag(s - 1) \o "@" \o ToString(d), d = 0>>]

ItemClauses(e, n) ==
  LET want == T!LogItems(e.boards, e.decs, e.teams_cps, n) IN
  << <<"log-present", e.file.present>>, <<"log-json", e.file.json_ok>>,
     <<"log-count", e.file.nitems = n>>,
     <<"log-keys", e.file.keys_ok>>,
     \* whenever a seat was told "End of session" the log on disk was complete
     <<"log-complete-when-declared-over",
       "complete_when_declared_over" \in DOMAIN e.file => e.file.complete_when_declared_over>> >>
  \o (IF e.file.json_ok /\ e.file.nitems = n /\ e.file.keys_ok
      THEN [k \in 1..n |->
              LET bad == {f \in SeqRange(e.file.fields) : e.file.items[k][f] # want[k][f]}
              IN <<"log-record" \o ToString(k) \o "("
                     \o (IF bad = {} THEN "" ELSE CHOOSE f \in bad : TRUE) \o ")",
                   bad = {}>>]
      ELSE <<>>)

ReplicaClauses(e) ==
  [k \in 1..Len(e.replicas) |->
     LET r == e.replicas[k]
         b == e.boards[r.board]
         d == e.decs[r.board]
         c == T!ContractOf(b, d.calls)
     IN IF r.kind = "contract"
        THEN <<"replica-contract-" \o SeatTag(r.seat), r.contract = c>>
        ELSE LET fp == T!FinalPlay(b, c, d.cards)
             IN <<"replica-play-" \o SeatTag(r.seat),
                  /\ "error" \notin DOMAIN r
                  /\ r.decl = fp.decl /\ r.trump = fp.trump
                  /\ r.leader = fp.leader /\ r.active = fp.active
                  /\ r.tricknum = fp.trickNum
                  /\ r.taken[1] = fp.taken[0] /\ r.taken[2] = fp.taken[1]
                  /\ r.hist = fp.hist /\ r.done = T!P!PDone(fp)>>]

\* C06 over the network: at every decision of the play the set the client's
\* own replica offered to its playing system is the playable set of the hand
\* that decides (the seat's own, or dummy's when declarer plays for it), and
\* the hand the client believes it holds is that hand
OfferClauses(e) ==
  IF "offers" \notin DOMAIN e.decs[1] THEN <<>>
  ELSE LET Bad(k, held) ==
             LET b == e.boards[k]
                 d == e.decs[k]
                 c == T!ContractOf(b, d.calls)
             IN IF ~T!A!Done(T!FinalAuction(b, d.calls)) THEN {}   \* board not reached / stopped in the auction
                ELSE IF T!PassedOutC(c) THEN {}
                ELSE {j \in 1..Len(d.offers) :
                        LET p == T!PlayAfter(T!InitPlayOf(b, c), d.cards, j - 1)
                            h == p.hands[d.cards[j].seat]
                        IN IF held THEN SeqRange(d.offers[j].held) # h
                           ELSE SeqRange(d.offers[j].offered) # T!P!CurrentAvailable(p, h)}
           First(S) == IF S = {} THEN "0" ELSE ToString(CHOOSE j \in S : \A j2 \in S : j <= j2)
       IN [k \in 1..Len(e.decs) |->
             \* C05: the hand the client believes it (or dummy) holds is the hand
             <<"held-hand-board" \o ToString(k) \o "@" \o First(Bad(k, TRUE)), Bad(k, TRUE) = {}>>]
          \o [k \in 1..Len(e.decs) |->
             \* C06: what it offers to its playing system is the playable set
             <<"offered-playable-board" \o ToString(k) \o "@" \o First(Bad(k, FALSE)),
               Bad(k, FALSE) = {} /\ Len(e.decs[k].offers) <= Len(e.decs[k].cards) + 1>>]

\* the decisions describe complete boards (every auction ended, 52 cards on
\* every board that was not passed out): only then are the expected streams
\* defined
BoardComplete(b, d) ==
  LET fa == T!FinalAuction(b, d.calls) IN
  /\ T!A!Done(fa)
  /\ LET c == T!A!Contract(fa) IN
     IF T!PassedOutC(c) THEN d.cards = <<>> ELSE Len(d.cards) = 52
DecsComplete(e, n) == \A k \in 1..n : BoardComplete(e.boards[k], e.decs[k])

RECURSIVE Clauses(_)
Clauses(e) ==
  IF e.kind = "restart" THEN
     \* growth (extra check X05): Server main() with a board file and a restart
     \* index - the session is the session of the boards from that index on
     IF T!RestartOk(e.file_boards, e.restart)
     THEN << <<"restart-boards", e.boards = T!Restart(e.file_boards, e.restart)>> >>
          \o Clauses([e EXCEPT !.kind = "normal", !.boards = T!Restart(e.file_boards, e.restart)])
     ELSE << <<"restart-refused", e.done.main_exc /\ ~e.file.present>>,
             <<"restart-nobody-served", \A s \in 1..4 : e.s2c[s] = <<>> >> >>
  ELSE IF e.kind = "normal" THEN
     LET base == << <<"complete-verdict", e.done.verdict = "all-done">>,
                    <<"complete-main", ~e.done.main_exc>>,
                    <<"complete-seat-threads", e.done.seats_done /\ ~e.done.seats_exc>>,
                    <<"complete-threads-when-run-returns", e.done.seats_done_at_return>>,
                    <<"clients-complete", ~e.done.clients_exc>>,
                    \* C11: no client program stops following the session before it is told
                    \* that the session is over
                    <<"clients-complete-until-end-of-session",
                      "clients_left_early" \in DOMAIN e.done => ~e.done.clients_left_early>> >>
     \* when every board was decided to its end the expected streams, log and
     \* replicas are defined, whatever else went wrong
     IN IF ~DecsComplete(e, Len(e.boards))
        THEN base \o << <<"complete-decisions", DecsComplete(e, Len(e.boards))>>,
                          \* C08: the log lists the configured boards - all of them
                          <<"log-lists-all-boards", e.file.present /\ e.file.json_ok
                                                      /\ e.file.nitems = Len(e.boards)>> >>
             \* the session stopped: everything the decisions taken so far oblige
             \* the server to send must have been sent (boards before the last
             \* started one must be complete for this to be defined)
             \o (IF e.done.verdict = "deadlock" /\ ~e.done.clients_exc
                    /\ DecsComplete(e, T!LastStarted(e.decs) - 1)
                 THEN [s \in 1..4 |->
                         LET want == T!PartialServerStream(s - 1, e.boards, e.decs, e.teams)
                             got == e.s2c[s]
                             d == FirstDiff(SubSeq(got, 1, IF Len(got) < Len(want) THEN Len(got)
                                                           ELSE Len(want)), want)
                         IN <<"stream-partial-" \o SeatTag(s - 1) \o "@" \o ToString(d), d = 0>>]
                 ELSE <<>>)
             \* whatever went wrong: no seat was ever sent a line other than the
             \* one it was entitled to at that position
             \o (IF DecsComplete(e, T!LastStarted(e.decs) - 1)
                 THEN [s \in 1..4 |->
                         LET want == T!PartialServerStream(s - 1, e.boards, e.decs, e.teams)
                             got == e.s2c[s]
                             n == IF Len(got) < Len(want) THEN Len(got) ELSE Len(want)
                             d == FirstDiff(SubSeq(got, 1, n), SubSeq(want, 1, n))
                         IN <<"stream-prefix-" \o SeatTag(s - 1) \o "@" \o ToString(d), d = 0>>]
                 ELSE <<>>)
             \o OfferClauses(e)
        ELSE base
     \o StreamClauses(e, "stream", e.s2c,
                      LAMBDA s : T!ServerStream(s, e.boards, e.decs, e.teams))
     \o StreamClauses(e, "client-stream", e.c2s,
                      LAMBDA s : T!ClientStream(s, e.boards, e.decs, e.teams))
     \o ItemClauses(e, Len(e.boards))
     \o ReplicaClauses(e)
     \o OfferClauses(e)
  ELSE IF e.kind = "ready-fault" THEN
     \* growth (extra check X02): a malformed ready-line is answered with one
     \* error and a close, and the session hangs with the log left open - the
     \* behaviour Table.tla documents (ReadyFaultHangs, ReadyFaultOneError)
     << <<"hangs", e.done.verdict = "deadlock">>,
        <<"main-still-waiting", e.stuck.main_alive /\ ~e.done.main_exc>>,
        <<"log-left-open", ~e.stuck.file_closed>>,
        <<"offender-one-error", e.offender.last = "ERROR: Unexpected message received."
                                  /\ e.offender.server_closed>>,
        <<"others-not-closed", ~e.others_closed>> >>
  ELSE IF e.kind = "abort" THEN
     IF ~DecsComplete(e, e.completed)
     THEN << <<"abort-decisions-of-finished-boards", FALSE>> >>
     ELSE << <<"abort-main-stopped", e.done.main_exc>>,
             \* a board whose last card had already been passed on to every seat
             \* when the session was abandoned was finished: it is in the log
             <<"abort-no-finished-board-lost",
               LET j == e.completed + 1 IN
               (j <= Len(e.boards) /\ DecsComplete(e, j)
                  /\ \A s \in 1..4 :
                        LET full == T!ServerStream(s - 1, SubSeq(e.boards, 1, j), SubSeq(e.decs, 1, j), e.teams)
                            pre == SubSeq(full, 1, Len(full) - 1)        \* without "End of session"
                        IN Len(e.s2c[s]) >= Len(pre) /\ SubSeq(e.s2c[s], 1, Len(pre)) = pre)
                 => e.file.nitems > e.completed>>,
             \* a refused action is not passed on to the other seats
             <<"stream-no-relay-of-refused-action",
               ("offence" \in DOMAIN e /\ e.offence # "") =>
                  \A k \in 1..Len(e.s2c_all) : e.offence \notin SeqRange(e.s2c_all[k])>> >>
          \o ItemClauses(e, e.completed)
  ELSE \* admission
     LET rqs == e.requests
         tbl == T!TableAfter(T!EmptyTable, rqs, Len(rqs))
         teams == <<tbl[0], tbl[1]>>
         base == << <<"admission-full", T!TableFull(tbl)>>,
                    <<"admission-partners", tbl[0] = tbl[2] /\ tbl[1] = tbl[3]>>,
                    <<"complete-verdict", e.done.verdict = "all-done">>,
                    <<"complete-main", ~e.done.main_exc>> >>
     IN IF AllFails(base) # "" \/ ~DecsComplete(e, Len(e.boards))
        THEN base \o << <<"complete-decisions", DecsComplete(e, Len(e.boards))>> >>
                  \o [k \in 1..Len(rqs) |->
                        LET v == T!VerdictOf(rqs, k)
                            c == e.conns[k]
                        IN IF v.ok THEN <<"admission-seated-" \o ToString(k),
                                          Len(c.s2c) >= 1 /\ c.s2c[1] = v.reply>>
                           ELSE <<"admission-reply-" \o ToString(k),
                                  c.s2c = <<v.reply>> /\ c.server_closed>>]
        ELSE base
        \o [k \in 1..Len(rqs) |->
              LET v == T!VerdictOf(rqs, k)
                  c == e.conns[k]
              IN IF v.ok
                 THEN <<"admission-stream-" \o ToString(k) \o "@"
                          \o ToString(FirstDiff(c.s2c, T!ServerStream(rqs[k].seat, e.boards,
                                                                       e.decs, teams))),
                        c.s2c = T!ServerStream(rqs[k].seat, e.boards, e.decs, teams)>>
                 ELSE <<"admission-reply-" \o ToString(k),
                        c.s2c = <<v.reply>> /\ c.server_closed>>]
        \o ItemClauses(e, Len(e.boards))

TInit == /\ i = 1 /\ nrej = 0 /\ st = 0 /\ res = 0 /\ m = 0 /\ obs = 0 /\ deal = 0
         /\ ores = 0 /\ bid = 0 /\ dbl = 0 /\ bvul = 0 /\ decl = 0 /\ tricks = 0
         /\ w = 0 /\ nwrites = 0

Consume ==
  /\ i <= NTrace
  /\ i' = i + 1
  /\ UNCHANGED <<st, res, m, obs, deal, ores, bid, dbl, bvul, decl, tricks, w, nwrites>>
  /\ LET e == Trace[i]
         c == AllFails(Clauses(e))
     IN IF c = "" THEN nrej' = nrej
        ELSE /\ Reject(e.tid, i, e.kind \o ":fail=" \o c) /\ nrej' = nrej + 1

Done ==
  /\ i = NTrace + 1
  /\ Finish(NTrace, nrej)
  /\ i' = i + 1
  /\ UNCHANGED <<st, res, m, obs, deal, ores, bid, dbl, bvul, decl, tricks, w, nwrites, nrej>>

TNext == Consume \/ Done
TSpec == TInit /\ [][TNext]_tvars
=============================================================================
