-------------------------------- MODULE Pbn --------------------------------
(***************************************************************************)
(* PBN files as sequences of abstract lines and the two programs that      *)
(* handle them: PbnParser.parse_stream (game splitting on (semi-)empty     *)
(* lines, '%' lines skipped, first occurrence of a tag wins) and           *)
(* PbnWriter.write_board_result (the 15 mandatory tags in order, then the  *)
(* empty line that separates games).  C17 (PBN half), C18.                 *)
(*                                                                         *)
(* SkipEmptyGames = FALSE and GameSeparator = FALSE are the behaviours of  *)
(* the pinned tree (findings F6, F7), kept as regression configurations.   *)
(***************************************************************************)
EXTENDS Naturals, Sequences, FiniteSets, TLC, Json

CONSTANTS SkipEmptyGames, GameSeparator,
          Col0Comments,    \* FALSE: as coded, '{' or ';' in the first column does not
                           \* start a comment; TRUE: as the PBN standard has it
          CommentStyles,   \* subset of {"none","semi","brace","block","block0"}
          MaxGames,        \* games per generated file
          Blanks0, BlanksMid, BlanksEnd,   \* sets of blank-line run lengths
          Headers,         \* set of numbers of '%' header lines
          Orders           \* how many of the 24 tag orders are explored (1..24)

(* ------------------------------- lines --------------------------------- *)
Blank == [k |-> "blank"]
Pct   == [k |-> "pct"]
Row   == [k |-> "row"]
Tag(n, v) == [k |-> "tag", name |-> n, val |-> v]

(* Commentary (growth beyond the listed properties; extract_content):       *)
(*   TagC(n, v, tail)  a tag pair followed on the same line by "; text"     *)
(*                     (tail "semi"), "{ text }" ("brace") or "{ text"      *)
(*                     that stays open ("open")                             *)
(*   Open0             a line whose first two characters are "{ "           *)
(*   CText(look, ..)   a line meant to be inside a comment that looks like  *)
(*                     a blank line, a tag pair, a '%' line or plain text   *)
(*   Close(then)       "text } " followed by nothing (None) or a line       *)
TagC(n, v, tail) == [k |-> "tagc", name |-> n, val |-> v, tail |-> tail]
Open0 == [k |-> "open0"]
CText(look, n, v) == [k |-> "ctext", look |-> look, name |-> n, val |-> v]
NoLine == [k |-> "none"]
Close(then) == [k |-> "close", then |-> then]
\* how a line meant as commentary reads when the parser is not in a comment
Demote(l) == CASE l.look = "blank" -> Blank [] l.look = "pct" -> Pct
               [] l.look = "tag" -> Tag(l.name, l.val) [] OTHER -> Row

(* ------------------------ the parser, as coded ------------------------- *)
\* first occurrence of every tag name in a buffer of tag lines
RECURSIVE FirstWins(_, _)
FirstWins(buf, acc) ==
  IF buf = <<>> THEN acc
  ELSE LET t == Head(buf)
       IN IF \E p \in acc : p[1] = t.name THEN FirstWins(Tail(buf), acc)
          ELSE FirstWins(Tail(buf), acc \cup {<<t.name, t.val>>})

RECURSIVE Parse(_, _, _, _, _)
Parse(lines, buf, content, games, inc) ==
  IF lines = <<>>
  THEN IF content /\ (FirstWins(buf, {}) # {} \/ ~SkipEmptyGames)
       THEN Append(games, FirstWins(buf, {})) ELSE games
  ELSE LET l == Head(lines) IN
       IF inc
       THEN \* inside "{ ... }": everything up to the closing brace is swallowed,
            \* blank lines and tag pairs included; what follows the brace is read
            IF l.k = "close"
            THEN Parse((IF l.then.k = "none" THEN <<>> ELSE <<l.then>>) \o Tail(lines),
                       buf, TRUE, games, FALSE)
            ELSE Parse(Tail(lines), buf, content, games, TRUE)
       ELSE
       IF l.k = "blank"
       THEN LET g == FirstWins(buf, {})
            IN Parse(Tail(lines), <<>>, FALSE,
                     IF g # {} \/ ~SkipEmptyGames THEN Append(games, g) ELSE games, FALSE)
       ELSE IF l.k = "pct" THEN Parse(Tail(lines), buf, content, games, FALSE)
       ELSE IF l.k = "tag" THEN Parse(Tail(lines), Append(buf, l), TRUE, games, FALSE)
       ELSE IF l.k = "tagc"
            THEN Parse(Tail(lines), Append(buf, Tag(l.name, l.val)), TRUE, games, l.tail = "open")
       ELSE IF l.k = "open0" THEN Parse(Tail(lines), buf, TRUE, games, Col0Comments)
       ELSE IF l.k = "ctext" THEN Parse(<<Demote(l)>> \o Tail(lines), buf, content, games, FALSE)
       ELSE IF l.k = "close"
            THEN Parse((IF l.then.k = "none" THEN <<>> ELSE <<l.then>>) \o Tail(lines),
                       buf, TRUE, games, FALSE)
       ELSE Parse(Tail(lines), buf, TRUE, games, FALSE)          \* table row
ParseFile(lines) == Parse(lines, <<>>, FALSE, <<>>, FALSE)

(* ------------------------ the writer, as coded ------------------------- *)
Mandatory == <<"Event", "Site", "Date", "Board", "West", "North", "East", "South",
               "Dealer", "Vulnerable", "Deal", "Scoring", "Declarer", "Contract",
               "Result">>
\* vals: function from the 15 tag names to the texts written
WriteGame(vals) ==
  [k \in 1..15 |-> Tag(Mandatory[k], vals[Mandatory[k]])]
    \o (IF GameSeparator THEN <<Blank>> ELSE <<>>)
RECURSIVE WriteAll(_)
WriteAll(vs) == IF vs = <<>> THEN <<>> ELSE WriteGame(Head(vs)) \o WriteAll(Tail(vs))
GameOf(vals) == {<<Mandatory[k], vals[Mandatory[k]]>> : k \in 1..15}

(* ------------------------- generated import files ---------------------- *)
Required == <<"Board", "Deal", "Dealer", "Vulnerable">>
Perms4 == {p \in [1..4 -> 1..4] : \A a, b \in 1..4 : a # b => p[a] # p[b]}
\* a fixed enumeration of the permutations, so that "Orders = 6" means the
\* first six
PermSeq == LET RECURSIVE Enum(_)
               Enum(S) == IF S = {} THEN <<>>
                          ELSE LET x == CHOOSE y \in S : TRUE IN <<x>> \o Enum(S \ {x})
           IN Enum(Perms4)
Extras == {"none", "before", "after", "table", "dup", "between"}
NextExtra(x) == CASE x = "none" -> "table" [] x = "table" -> "before"
                  [] x = "before" -> "dup" [] x = "dup" -> "between"
                  [] x = "between" -> "after" [] OTHER -> "none"
Sym(name, g) == name \o ToString(g)              \* symbolic value of game g
\* commentary placed after the first required tag of a game
CommentBlock == <<CText("text", "", ""), CText("blank", "", ""),
                  CText("tag", "Board", "in-comment"), CText("pct", "", "")>>
WithComment(req, cs) ==
  LET t == req[1] IN
  CASE cs = "semi"  -> <<TagC(t.name, t.val, "semi")>> \o Tail(req)
    [] cs = "brace" -> <<TagC(t.name, t.val, "brace")>> \o Tail(req)
    [] cs = "block" -> <<TagC(t.name, t.val, "open")>> \o CommentBlock
                        \o <<Close(req[2])>> \o Tail(Tail(req))
    [] cs = "block0" -> <<t, Open0>> \o CommentBlock \o <<Close(NoLine)>> \o Tail(req)
    [] OTHER -> req
GameLinesC(g, perm, extra, cs) ==
  LET req == WithComment([k \in 1..4 |-> Tag(Required[perm[k]], Sym(Required[perm[k]], g))], cs)
      n == Len(req)
  IN  (IF extra = "before" THEN <<Tag("Event", Sym("Event", g))>> ELSE <<>>)
      \o (IF extra = "between"
          THEN SubSeq(req, 1, n - 2) \o <<Tag("Site", Sym("Site", g))>> \o SubSeq(req, n - 1, n)
          ELSE req)
      \o (IF extra = "after" THEN <<Tag("Scoring", Sym("Scoring", g))>>
          ELSE IF extra = "table"
               THEN <<Tag("OptimumResultTable", "Declarer;Denomination"), Row, Row>>
          ELSE IF extra = "dup" THEN <<Tag("Board", "ignored" \o ToString(g))>>
          ELSE <<>>)
GameLines(g, perm, extra) ==
  LET req == [k \in 1..4 |-> Tag(Required[perm[k]], Sym(Required[perm[k]], g))]
  IN  (IF extra = "before" THEN <<Tag("Event", Sym("Event", g))>> ELSE <<>>)
      \o (IF extra = "between"
          THEN SubSeq(req, 1, 2) \o <<Tag("Site", Sym("Site", g))>> \o SubSeq(req, 3, 4)
          ELSE req)
      \o (IF extra = "after" THEN <<Tag("Scoring", Sym("Scoring", g))>>
          ELSE IF extra = "table"
               THEN <<Tag("OptimumResultTable", "Declarer;Denomination"), Row, Row>>
          ELSE IF extra = "dup" THEN <<Tag("Board", "ignored" \o ToString(g))>>
          ELSE <<>>)
ExpectedGame(g, extra) ==
  {<<Required[k], Sym(Required[k], g)>> : k \in 1..4}
    \cup (IF extra = "before" THEN {<<"Event", Sym("Event", g)>>}
          ELSE IF extra = "between" THEN {<<"Site", Sym("Site", g)>>}
          ELSE IF extra = "after" THEN {<<"Scoring", Sym("Scoring", g)>>}
          ELSE IF extra = "table" THEN {<<"OptimumResultTable", "Declarer;Denomination">>}
          ELSE {})
Rep(x, n) == [k \in 1..n |-> x]

VARIABLES file, expect, meta
vars == <<file, expect, meta>>

RECURSIVE Body(_, _, _, _, _, _)
\* games g..n: game g uses permutation index pi and extra ex; later games
\* use the following permutation / extra; commentary of style cs in the
\* odd-numbered games
Body(g, n, pi, ex, mid, cs) ==
  IF g > n THEN <<>>
  ELSE GameLinesC(g, PermSeq[((pi - 1) % 24) + 1], ex, IF g % 2 = 1 THEN cs ELSE "none")
       \o (IF g < n THEN Rep(Blank, mid) ELSE <<>>)
       \o Body(g + 1, n, pi + 7, NextExtra(ex), mid, cs)
RECURSIVE Expect(_, _, _)
Expect(g, n, ex) == IF g > n THEN <<>>
                    ELSE <<ExpectedGame(g, ex)>> \o Expect(g + 1, n, NextExtra(ex))

Init ==
  \E n \in 0..MaxGames, pi \in 1..Orders, ex \in Extras,
     b0 \in Blanks0, mid \in BlanksMid, be \in BlanksEnd, h \in Headers, cs \in CommentStyles :
     /\ (n = 0 => pi = 1 /\ ex = "none" /\ mid = CHOOSE x \in BlanksMid : TRUE)
     /\ (n = 0 => cs = CHOOSE x \in CommentStyles : TRUE)
     /\ (n <= 1 => mid = CHOOSE x \in BlanksMid : TRUE)
     /\ file = Rep(Pct, h) \o Rep(Blank, b0) \o Body(1, n, pi, ex, mid, cs) \o Rep(Blank, be)
     /\ expect = Expect(1, n, ex)
     /\ meta = [n |-> n, pi |-> pi, ex |-> ex, b0 |-> b0, mid |-> mid, be |-> be, h |-> h,
                cs |-> cs]
Next == UNCHANGED vars
Spec == Init /\ [][Next]_vars

\* C17: the games read are the games written, in order
ParsesBack == ParseFile(file) = expect

\* C18: n written results are read back as n games in order, each with the 15
\* tags as written (symbolic values)
SymVals(g) == [t \in {Mandatory[k] : k \in 1..15} |-> Sym(t, g)]
WriterParsesBack ==
  \A n \in 1..3 :
     ParseFile(WriteAll([g \in 1..n |-> SymVals(g)])) = [g \in 1..n |-> GameOf(SymVals(g))]

SetToSeq(S) == LET RECURSIVE F(_)
                   F(T) == IF T = {} THEN <<>>
                           ELSE LET x == CHOOSE y \in T : TRUE IN <<x>> \o F(T \ {x})
               IN F(S)
Export == PrintT(ToJson([lines |-> file,
                         expect |-> [k \in 1..Len(expect) |-> SetToSeq(expect[k])],
                         meta |-> meta]))
=============================================================================
