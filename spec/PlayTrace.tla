----------------------------- MODULE PlayTrace -----------------------------
(***************************************************************************)
(* Validates traces recorded from the real PlayingPhase,                   *)
(* PlayingPhaseWithHands, ObservedPlayingPhase and RandomPlay against      *)
(* Play!PStep and the PlayLaw oracle (C04, C05, C06, C11 in process).      *)
(*                                                                         *)
(* A trace (tid) is one board followed by up to six objects o \in 0..5:    *)
(* events                                                                  *)
(*   new      : o, mode ("plain" | "hands" | "obs"), me, deal, trump, decl *)
(*   play     : o, seat, card, via ("by_player" | "raw"); fork: made on a  *)
(*              deep / pickled copy of the object, which itself stays      *)
(*   setdummy : o, hand                                                    *)
(*   avail    : o, kind ("static" | "cur" | "hand" | "own" | "dummy"),     *)
(*              hand / seat / led  -> out                                  *)
(*   choose   : o, hand -> out   (RandomPlay.play on the object's state)   *)
(*   agree    : all objects of the trace hold the same public state        *)
(*   highest  : suit, cards -> out (calc_highest called directly)          *)
(*   peek     : done, taken as seen by another thread in the middle of a   *)
(*              play (harness/race.py)                                     *)
(*   trick    : trump, decl, cards (4)  -> projected state of a fresh      *)
(*              plain object after the four plays (winner table)           *)
(* play / setdummy / new log res and the projected state AFTER the call    *)
(* (or same |-> TRUE when a refused call left the projection unchanged):   *)
(*   decl, dummy, trump, leader, active, tricknum, taken <<ns, ew>>, used  *)
(*   (sorted), hist (<<[leader, cards]>>), done, hands (4 sorted lists),   *)
(*   own, dum (sorted lists), dumset                                       *)
(***************************************************************************)
EXTENDS TraceBase, Bridge, PlayLaw, Integers

Deals == {}
Trumps == {}
Decls == {}
Revokes == TRUE
VARIABLES m, obs, deal, ores
P == INSTANCE Play

VARIABLES i, skip, nrej, objs, odeal, seen
tvars == <<m, obs, deal, ores, i, skip, nrej, objs, odeal, seen>>

Null == [none |-> TRUE]
IsSame(e) == "same" \in DOMAIN e /\ e.same
SeqToDeal(q) == [s \in Seats |-> SeqRange(q[s + 1])]
IsSortedSeq(q) == \A k \in 1..(Len(q) - 1) : q[k] < q[k + 1]
SetOf(q) == SeqRange(q)

Observed(e, s) ==
  << <<"contract", e.decl = s.decl /\ e.dummy = s.dummy /\ e.trump = s.trump>>,
     <<"leader", e.leader = s.leader>>,
     <<"active", e.active = s.active>>,
     <<"tricknum", e.tricknum = s.trickNum>>,
     <<"taken", e.taken[1] = s.taken[0] /\ e.taken[2] = s.taken[1]>>,
     <<"used", SetOf(e.used) = s.used /\ IsSortedSeq(e.used)>>,
     <<"hist", e.hist = s.hist>>,
     <<"done", e.done = P!PDone(s)>>,
     <<"hands", s.mode = "hands" =>
                  \A p \in Seats : /\ SetOf(e.hands[p + 1]) = s.hands[p]
                                   /\ IsSortedSeq(e.hands[p + 1])>>,
     <<"own", s.mode = "obs" => SetOf(e.own) = s.own /\ IsSortedSeq(e.own)>>,
     \* the caller's own Hands object / hand set either follows the play or
     \* keeps the original deal - never something in between
     <<"caller-hands", "caller" \in DOMAIN e => e.caller # "neither">>,
     <<"dummy-hand", s.mode = "obs" =>
                       /\ e.dumset = s.dumSet
                       /\ s.dumSet => SetOf(e.dum) = s.dum>> >>

\* the model agrees with the law on this very state (hands mode: the deal is
\* known); a failure is an inconsistency of the specification itself
LawOK(s, dl) ==
  LET pl == P!Plays(s) IN
  /\ s.active = LawTurn(s.decl, s.trump, pl)
  /\ s.leader = LawLeader(s.decl, s.trump, pl, NumTricks(pl) + 1)
  /\ s.hist = LawHistory(s.decl, s.trump, pl)
  /\ \A d \in Sides : s.taken[d] = LawTaken(s.decl, s.trump, pl, d)
  /\ s.mode = "hands" =>
        \A p \in Seats : s.hands[p] = LawHolding(dl, s.decl, s.trump, pl, p)

FailSet(checks) == {checks[k][1] : k \in {j \in 1..Len(checks) : ~checks[j][2]}}

TInit == /\ i = 1 /\ skip = FALSE /\ nrej = 0 /\ seen = {}
         /\ objs = [o \in 0..5 |-> Null] /\ odeal = Null
         /\ m = Null /\ obs = Null /\ deal = Null /\ ores = Null

Bad(e, clause) == /\ Reject(e.tid, i, clause)
                  /\ skip' = TRUE /\ nrej' = nrej + 1
                  /\ UNCHANGED <<objs, odeal, seen>>
Good(newobjs) == /\ skip' = FALSE /\ nrej' = nrej /\ objs' = newobjs
                 /\ UNCHANGED <<odeal, seen>>
\* the call was accepted / refused as specified but the state shown (or an
\* answer) differs: report the clauses not yet reported for this trace and go
\* on with the specification's state, so that later consequences are judged
Soft(e, clause, fs, newobjs) ==
  /\ IF fs \subseteq seen THEN nrej' = nrej
     ELSE Reject(e.tid, i, clause) /\ nrej' = nrej + 1
  /\ seen' = seen \cup fs /\ skip' = FALSE /\ objs' = newobjs /\ UNCHANGED odeal

FourPlays(s0, cards) ==
  LET s1 == P!PStep(s0, s0.active, cards[1]).st
      s2 == P!PStep(s1, s1.active, cards[2]).st
      s3 == P!PStep(s2, s2.active, cards[3]).st
  IN  P!PStep(s3, s3.active, cards[4]).st

NewTrace(e) == i = 1 \/ Trace[i - 1].tid # e.tid

Consume ==
  /\ i <= NTrace
  /\ i' = i + 1
  /\ UNCHANGED <<m, obs, deal, ores>>
  /\ LET e == Trace[i]
         fresh == NewTrace(e)
         cur == IF fresh THEN [o \in 0..5 |-> Null] ELSE objs
     IN
     IF (~fresh) /\ skip THEN UNCHANGED <<skip, nrej, objs, odeal, seen>>
     ELSE IF e.ev = "new" THEN
        LET dl == SeqToDeal(e.deal)
            s0 == P!InitPlay(e.mode, e.me, dl, e.trump, e.decl)
            c  == AllFails(Observed(e, s0))
        IN IF c = ""
           THEN /\ skip' = FALSE /\ nrej' = nrej
                /\ objs' = [cur EXCEPT ![e.o] = s0] /\ odeal' = dl
                /\ seen' = IF fresh THEN {} ELSE seen
           ELSE /\ Reject(e.tid, i, "new:o=" \o e.mode \o ":fail=" \o c)
                /\ skip' = TRUE /\ nrej' = nrej + 1
                /\ objs' = cur /\ odeal' = dl /\ seen' = IF fresh THEN {} ELSE seen
     ELSE IF e.ev = "trick" THEN
        LET s0 == P!InitPlay("plain", NoSeat, [s \in Seats |-> {}], e.trump, e.decl)
            s4 == FourPlays(s0, e.cards)
            w  == SeatAfter(s0.leader, LawWinnerPos(e.cards, e.trump) - 1)
            c  == AllFails(Observed(e, s4)
                           \o << <<"MODEL-LAW", s4.leader = w /\ s4.taken[Side(w)] = 1>> >>)
        IN IF c = "" THEN /\ skip' = FALSE /\ nrej' = nrej
                          /\ objs' = cur /\ UNCHANGED <<odeal, seen>>
           ELSE /\ Reject(e.tid, i, "trick:o=plain:fail=" \o c)
                /\ skip' = TRUE /\ nrej' = nrej + 1 /\ objs' = cur
                /\ UNCHANGED <<odeal, seen>>
     ELSE IF e.ev = "avail" /\ e.kind = "static" THEN
        LET exp == LawPlayable(SetOf(e.hand), e.led)
            c == AllFails(<< <<"result", e.res = "ok">>,
                             <<"playable", e.res = "ok" => SetOf(e.out) = exp>>,
                             <<"MODEL-LAW", exp = P!AvailableCards(SetOf(e.hand), e.led)>> >>)
        IN IF c = "" THEN Good(cur)
           ELSE Bad(e, "avail:o=static:fail=" \o c)
     ELSE IF e.ev = "highest" THEN
        \* the public helper calc_highest(suit, cards), called directly
        LET exp == P!CalcHighest(e.suit, e.cards)
            inSuit == {k \in 1..Len(e.cards) : CardSuit(e.cards[k]) = e.suit}
            c == AllFails(<< <<"result", e.res = "ok">>,
                             <<"highest", e.res = "ok" => e.out = exp>>,
                             <<"MODEL-LAW", IF e.suit = NT \/ inSuit = {} THEN exp = -1
                                            ELSE /\ exp + 1 \in inSuit
                                                 /\ \A k \in inSuit :
                                                       CardRank(e.cards[k]) <= CardRank(e.cards[exp + 1])>> >>)
        IN IF c = "" THEN Good(cur) ELSE Bad(e, "highest:o=plain:fail=" \o c)
     ELSE IF e.ev = "peek" THEN
        \* a look at the object from another thread while a card is being
        \* played: whenever play is over the two sides' counts total thirteen
        LET c == AllFails(<< <<"over-implies-thirteen", e.done => e.taken[1] + e.taken[2] = 13>>,
                             <<"counts-never-exceed-tricks", e.taken[1] + e.taken[2] <= 13>> >>)
        IN IF c = "" THEN Good(cur) ELSE Bad(e, "peek:o=plain:fail=" \o c)
     ELSE IF e.ev = "agree" THEN
        LET live == {o \in 0..5 : ~IsNone(cur[o])}
            c == AllFails(<< <<"replicas-agree",
                               \A a, b \in live : P!Public(cur[a]) = P!Public(cur[b])>> >>)
        IN IF c = "" THEN Good(cur) ELSE Soft(e, "agree:o=obs:fail=" \o c, {"agree"}, cur)
     ELSE
        LET s == cur[e.o] IN
        IF e.ev = "play" THEN
           LET r == IF e.via = "raw"
                    THEN [st |-> P!PlayCard(s, e.card), res |-> "ok", why |-> ""]
                    ELSE IF e.via = "int" /\ s.mode # "plain"
                    \* the bare index of a card is not a card: refused where hands are known
                    THEN [st |-> s, res |-> "raises", why |-> "not-a-card"]
                    ELSE P!PStep(s, e.seat, e.card)
               checks == << <<"result", e.res = r.res>> >>
                             \o (IF IsSame(e) THEN << <<"unchanged", r.st = s>> >>
                                 ELSE Observed(e, r.st))
                             \o (IF IsSame(e) THEN <<>>
                                 ELSE << <<"MODEL-LAW", LawOK(r.st, odeal)>> >>)
               c == AllFails(checks)
               txt == "play:o=" \o s.mode \o ":exp=" \o r.res \o ":why=" \o r.why
                          \o ":got=" \o e.res \o ":fail=" \o c
               \* fork: the call was made on a copy of the object (deepcopy / pickle);
               \* the object itself stays where it was
               nxt == IF "fork" \in DOMAIN e /\ e.fork THEN cur ELSE [cur EXCEPT ![e.o] = r.st]
           IN IF c = "" THEN Good(nxt)
              ELSE IF e.res = r.res
                   THEN Soft(e, txt, {s.mode \o "." \o x : x \in FailSet(checks)}, nxt)
              \* a play that had to be refused was accepted: go on with the
              \* specification's (unchanged) state, so that the playable-set queries
              \* that follow are still judged
              ELSE IF r.res = "raises" /\ e.res = "ok"
                   THEN Soft(e, txt, {s.mode \o ".accepted-refusable"}, nxt)
              \* a play on a COPY of the object changed the object itself: go on
              \* with the specification's state (what the object offers as
              \* playable afterwards is still judged)
              ELSE IF e.res = "fork-changed-original"
                   THEN Soft(e, txt, {s.mode \o ".fork-changed-original"}, nxt)
              ELSE Bad(e, txt)
        ELSE IF e.ev = "setdummy" THEN
           LET s1 == P!SetDummy(s, SetOf(e.hand))
               c == AllFails(Observed(e, s1))
           IN IF c = "" THEN Good([cur EXCEPT ![e.o] = s1])
              ELSE Soft(e, "setdummy:o=obs:fail=" \o c,
                        {"setdummy." \o x : x \in FailSet(Observed(e, s1))},
                        [cur EXCEPT ![e.o] = s1])
        ELSE IF e.ev = "avail" THEN
           LET hand == IF e.kind = "cur" THEN SetOf(e.hand)
                       ELSE IF e.kind = "hand" THEN s.hands[e.seat]
                       ELSE IF e.kind = "own" THEN s.own
                       ELSE s.dum
               raises == e.kind = "dummy" /\ ~s.dumSet
               exp == LawPlayable(hand, LawLed(P!Plays(s)))
               c == AllFails(<< <<"result", e.res = IF raises THEN "raises" ELSE "ok">>,
                                <<"playable", (~raises /\ e.res = "ok") => SetOf(e.out) = exp>>,
                                <<"MODEL-LAW", exp = P!CurrentAvailable(s, hand)>> >>)
           IN IF c = "" THEN Good(cur)
              ELSE Soft(e, "avail:o=" \o s.mode \o ":kind=" \o e.kind \o ":fail=" \o c,
                        {"avail." \o s.mode \o "." \o e.kind}, cur)
        ELSE IF e.ev = "choose" THEN
           LET exp == LawPlayable(SetOf(e.hand), LawLed(P!Plays(s)))
               c == AllFails(<< <<"result", e.res = "ok">>,
                                <<"choice-playable", e.res = "ok" => e.out \in exp>> >>)
           IN IF c = "" THEN Good(cur)
              ELSE Soft(e, "choose:o=" \o s.mode \o ":fail=" \o c, {"choose." \o s.mode}, cur)
        ELSE Bad(e, "unknown-event")

Done ==
  /\ i = NTrace + 1
  /\ Finish(NTrace, nrej)
  /\ i' = i + 1
  /\ UNCHANGED <<m, obs, deal, ores, skip, nrej, objs, odeal, seen>>

TNext == Consume \/ Done
TSpec == TInit /\ [][TNext]_tvars
=============================================================================
