"""Common plumbing of all checks: seeds, evidence, verdicts, trace validation."""
from __future__ import annotations

import hashlib
import json
import os
import random
import re
import sys
import time
from concurrent.futures import ThreadPoolExecutor
from dataclasses import dataclass, field
from pathlib import Path
from typing import Any, Callable, Dict, Iterable, List, Optional, Sequence, Tuple

from . import tlc
from .tlc import MachineryError, VERIF

REPO = Path(os.environ.get('VERIF_REPO', '/repo'))
EVIDENCE = Path(os.environ.get('VERIF_EVIDENCE_DIR', VERIF / 'evidence'))
REPLAYS = Path(os.environ.get('VERIF_EVIDENCE_DIR', VERIF / 'replays'))
KNOWN = VERIF / 'known_findings.json'
NCPU = min(16, os.cpu_count() or 1)

if str(REPO) not in sys.path:
    sys.path.insert(0, str(REPO))
os.environ.setdefault('BRIDGE_ENV_VERIF', '1')


def seed() -> int:
    try:
        return int(os.environ.get('VERIF_SEED', '0'))
    except ValueError:
        return 0


def rng(*salt) -> random.Random:
    """A reproducible generator derived from VERIF_SEED and a salt."""
    h = hashlib.sha256(repr((seed(),) + salt).encode()).digest()
    return random.Random(int.from_bytes(h[:8], 'big'))


@dataclass
class Finding:
    property_id: str
    key: str                 # stable identification of WHAT fails
    detail: str
    replay: Dict[str, Any]


class Check:
    """Book-keeping of one run of one property's check."""

    def __init__(self, property_id: str, tier: str, level: str = 'model_checking'):
        self.pid = property_id
        self.tier = tier
        self.level = level
        self.t0 = time.time()
        self.states = 0
        self.transitions = 0
        self.traces = 0
        self.evaluations = 0
        self.distinct: set = set()
        self.samples: List[Any] = []
        self.findings: List[Finding] = []
        self.notes: List[str] = []
        self.tlc_runs: List[Dict[str, Any]] = []
        self.extra: Dict[str, Any] = {}
        self.assumptions: List[str] = []
        self.rule = ''
        self.exhaustive: Optional[bool] = None

    # -- coverage -----------------------------------------------------
    def add_tlc(self, res: tlc.TlcResult, what: str, constants: str = '') -> None:
        self.states += res.distinct
        self.transitions += res.generated
        self.tlc_runs.append({'what': what, 'distinct_states': res.distinct,
                              'states_generated': res.generated,
                              'depth': res.depth, 'wall_s': round(res.wall_s, 2),
                              'constants': constants})

    def sample(self, x: Any, limit: int = 6) -> None:
        if len(self.samples) < limit:
            self.samples.append(x)

    def count(self, key: Any = None, n: int = 1) -> None:
        self.evaluations += n
        if key is not None:
            self.distinct.add(key if isinstance(key, (str, int, tuple))
                              else json.dumps(key, sort_keys=True))

    def note(self, s: str) -> None:
        self.notes.append(s)
        print(f'note: {s}')

    # -- verdicts -----------------------------------------------------
    def violation(self, key: str, detail: str, replay: Dict[str, Any]) -> None:
        if any(f.key == key for f in self.findings):
            return
        if len(self.findings) < 50:
            self.findings.append(Finding(self.pid, key, detail, replay))

    def model_violation(self, res: tlc.TlcResult, what: str) -> None:
        """A property violated on the specification itself (design check)."""
        self.violation(f'model:{what}:{res.violated}',
                       f'TLC: {res.violated} violated in {what}',
                       {'kind': 'tlc-counterexample', 'what': what,
                        'violated': res.violated,
                        'tlc_error': res.error_text[-6000:]})

    def finish(self) -> int:
        known = load_known()
        open_known = [k for k in known.get('open', [])
                      if k.get('property') == self.pid]
        unlisted: List[Finding] = []
        for f in self.findings:
            hit = None
            for k in open_known:
                if re.search(k['match'], f.key):
                    hit = k
                    break
            if hit is not None:
                print(f'KNOWN-FINDING: property={self.pid} {hit["what"]} '
                      f'[{f.key}]')
            else:
                unlisted.append(f)
        REPLAYS.mkdir(exist_ok=True)
        for f in unlisted:
            h = hashlib.sha1(f.key.encode()).hexdigest()[:10]
            path = REPLAYS / f'{self.pid}-{h}.json'
            path.write_text(json.dumps(
                {'property': self.pid, 'key': f.key, 'detail': f.detail,
                 'seed': seed(), 'tier': self.tier, 'replay': f.replay},
                indent=1, default=str))
            print(f'VIOLATION property={self.pid} replay={path}')
            print(f'  {f.key}: {f.detail[:600]}')
        self._write_evidence(len(unlisted))
        return 1 if unlisted else 0

    def _write_evidence(self, nviol: int) -> None:
        EVIDENCE.mkdir(exist_ok=True)
        cov: Dict[str, Any] = {
            'states': self.states,
            'transitions': self.transitions,
            'traces_validated_against_impl': self.traces,
            'samples': self.samples or ['(no sample recorded)'],
            'evaluations': self.evaluations,
            'distinct_nontrivial': len(self.distinct),
            'rule': self.rule,
            'tlc_runs': self.tlc_runs,
            'notes': self.notes,
        }
        if self.exhaustive is not None:
            cov['exhaustive'] = self.exhaustive
        cov.update(self.extra)
        ev = {'property_id': self.pid, 'tier': self.tier, 'seed': seed(),
              'level': self.level, 'coverage': cov,
              'assumptions': self.assumptions,
              'wall_s': round(time.time() - self.t0, 2),
              'violations': nviol}
        (EVIDENCE / f'{self.pid}.json').write_text(
            json.dumps(ev, indent=1, default=str))


def load_known() -> Dict[str, Any]:
    if KNOWN.exists():
        return json.loads(KNOWN.read_text())
    return {}


# ---------------------------------------------------------------------------
# design checks
# ---------------------------------------------------------------------------
def design_check(chk: Check, module: str, cfg: str, what: str, *,
                 constants: str = '', expect_violation: Optional[str] = None,
                 **kw) -> tlc.TlcResult:
    """Runs TLC on a module; a violated property is a violation of the check
    (unless this is a regression configuration that must be violated)."""
    res = tlc.run_tlc(module, cfg, **kw)
    tlc.require_clean(res, what)
    chk.add_tlc(res, what, constants)
    if expect_violation is not None:
        if res.violated is None:
            raise MachineryError(
                f'{what}: regression configuration no longer violates '
                f'{expect_violation} (vacuous specification?)')
        return res
    if res.violated is not None:
        chk.model_violation(res, what)
    return res


# ---------------------------------------------------------------------------
# trace validation (code -> spec)
# ---------------------------------------------------------------------------
@dataclass
class Reject:
    tid: Any
    line: int          # 1-based position of the event inside its trace
    clause: str
    event: Dict[str, Any]
    trace_events: List[Dict[str, Any]]
    module: str = ''


_RE_REJECT = re.compile(r'<<"REJECT", (.+), (\d+), "(.*)">>$')
_RE_DONE = re.compile(r'<<"DONE", (\d+), (\d+)>>')


def _weight(e: Dict[str, Any]) -> float:
    h = e.get('hist')
    return 1.0 + (len(h) / 8.0 if isinstance(h, list) else 0.0)


def _shard(events: List[Dict[str, Any]], k: int) -> List[List[Dict[str, Any]]]:
    """Splits into <= k shards of similar weight without splitting a trace
    (consecutive events with the same tid)."""
    n = len(events)
    if k <= 1:
        return [events]
    traces: List[Tuple[float, int, int]] = []
    start = 0
    w = 0.0
    for j, e in enumerate(events):
        if j > start and e['tid'] != events[j - 1]['tid']:
            traces.append((w, start, j))
            start, w = j, 0.0
        w += _weight(e)
    traces.append((w, start, n))
    k = min(k, max(1, n // 500))
    bins: List[List[Tuple[int, int]]] = [[] for _ in range(k)]
    load = [0.0] * k
    for w, a, b in sorted(traces, reverse=True):
        j = load.index(min(load))
        bins[j].append((a, b))
        load[j] += w
    out = []
    for bn in bins:
        evs: List[Dict[str, Any]] = []
        for a, b in sorted(bn):
            evs.extend(events[a:b])
        if evs:
            out.append(evs)
    return out


def validate_traces(chk: Check, module: str, events: List[Dict[str, Any]],
                    what: str, *, spec: str = 'TSpec',
                    shards: int = NCPU, heap: str = '3g',
                    timeout: int = 3600,
                    constants: Optional[Dict[str, str]] = None) -> List[Reject]:
    """Validates recorded events with the trace specification `module`.

    Returns the rejects (each with the events of its trace)."""
    if not events:
        return []
    cfg = tlc.cfg_text(specification=spec, constants=constants)
    # TLC holds a whole shard in memory (ndJsonDeserialize): bound the shard by
    # its size in bytes, run the shards in waves of `shards` JVMs
    approx = sum(len(json.dumps(e, separators=(',', ':'))) for e in events[::max(1, len(events) // 400)])
    per_event = approx / max(1, len(events[::max(1, len(events) // 400)]))
    nshards = max(shards if len(events) >= 3000 else 1,
                  int(len(events) * per_event / 12e6) + 1)
    parts = _shard(events, nshards)

    def one(evs):
        d = tlc.fresh(f'{module}-trace')
        d.mkdir(parents=True)
        f = d / 'trace.ndjson'
        with open(f, 'w') as fw:
            for e in evs:
                fw.write(json.dumps(e, separators=(',', ':')))
                fw.write('\n')
        res = tlc.run_tlc(module, cfg, workers=1, heap=heap, timeout=timeout,
                          env={'TRACE_FILE': str(f)}, name=f'{module}-tlc')
        f.unlink()
        return evs, res

    rejects: List[Reject] = []
    with ThreadPoolExecutor(max_workers=min(len(parts), NCPU)) as ex:
        results = list(ex.map(one, parts))
    ntr = 0
    for evs, res in results:
        tlc.require_clean(res, what)
        if res.violated is not None:
            raise MachineryError(f'{what}: trace spec itself failed: '
                                 f'{res.error_text[-3000:]}')
        m = _RE_DONE.search(res.out)
        if not m or int(m.group(1)) != len(evs):
            raise MachineryError(f'{what}: trace validation did not consume '
                                 f'the whole file ({m and m.group(0)} of '
                                 f'{len(evs)})\n{res.out[-3000:]}')
        chk.add_tlc(res, f'{what} (trace validation)')
        found = []
        for j in res.json_lines:
            if isinstance(j, dict) and j.get('verdict') == 'REJECT':
                found.append((None, int(j['line']), j['clause']))
        if len(found) != int(m.group(2)):
            raise MachineryError(f'{what}: reject lines lost')
        for tid_s, ln, clause in found:
            e = evs[ln - 1]
            tr = [x for x in _trace_of(evs, ln - 1)]
            rejects.append(Reject(e['tid'], len(tr), clause, e, tr, module))
        ntr += len({e['tid'] for e in evs})
    chk.traces += ntr
    return rejects


def _trace_of(evs: List[Dict[str, Any]], idx: int) -> List[Dict[str, Any]]:
    tid = evs[idx]['tid']
    a = idx
    while a > 0 and evs[a - 1]['tid'] == tid:
        a -= 1
    return evs[a:idx + 1]


def report_rejects(chk: Check, rejects: List[Reject], what: str,
                   key_of: Optional[Callable[[Reject], str]] = None) -> None:
    for r in rejects:
        if 'MODEL-LAW' in r.clause:
            raise MachineryError(f'{what}: specification inconsistent with '
                                 f'its own law at {r.event}')
        key = key_of(r) if key_of else f'{what}:{r.clause}'
        chk.violation(key,
                      f'{what}: trace {r.tid} rejected at line {r.line}, '
                      f'clause "{r.clause}"; event {json.dumps(r.event)[:500]}',
                      {'kind': 'rejected-trace', 'what': what, 'module': r.module,
                       'clause': r.clause, 'events': r.trace_events[-400:],
                       'events_complete': len(r.trace_events) <= 400})


PMAP_TIMEOUT = int(os.environ.get('VERIF_PMAP_TIMEOUT', '5400'))


def pmap(fn: Callable, items: Sequence, procs: int = NCPU, chunk: int = 1) -> List:
    """Process-parallel map (fork), order preserving."""
    import multiprocessing as mp
    if procs <= 1 or len(items) <= 1:
        return [fn(x) for x in items]
    ctx = mp.get_context('fork')
    with ctx.Pool(min(procs, len(items))) as pool:
        try:
            return pool.map_async(fn, items, chunksize=chunk).get(timeout=PMAP_TIMEOUT)
        except mp.TimeoutError:
            raise MachineryError(f'parallel map of {getattr(fn, "__name__", fn)} over {len(items)} '
                                 f'items did not finish within {PMAP_TIMEOUT} s')


def run_optimized(module: str, func: str, jobs: Sequence, flags: Sequence[str] = ('-O',),
                  env: Optional[Dict[str, str]] = None) -> List:
    """Runs harness function `module.func` on every job in a separate
    interpreter started with `flags` (-O: assert statements are stripped, as
    in a deployment with PYTHONOPTIMIZE) and environment `env` (PYTHONHASHSEED:
    sets of cards and seats are iterated in another order) and returns the
    results: the library must mean the same there."""
    import pickle
    import subprocess
    inp, outp = tlc.fresh('optin'), tlc.fresh('optout')
    inp.parent.mkdir(parents=True, exist_ok=True)
    inp.write_bytes(pickle.dumps(list(jobs)))
    code = ('import sys, pickle, importlib\n'
            f'sys.path.insert(0, {str(VERIF)!r}); sys.path.insert(1, {str(VERIF / ".pydeps")!r})\n'
            f'm = importlib.import_module({module!r}); f = getattr(m, {func!r})\n'
            f'jobs = pickle.load(open({str(inp)!r}, "rb"))\n'
            f'pickle.dump([f(j) for j in jobs], open({str(outp)!r}, "wb"))\n')
    p = subprocess.run([sys.executable, *flags, '-c', code], env=dict(os.environ, **(env or {})),
                       stdout=subprocess.PIPE, stderr=subprocess.STDOUT, text=True, timeout=1800)
    try:
        if p.returncode != 0 or not outp.exists():
            raise MachineryError(f'interpreter with {list(flags)} failed on {module}.{func}:\n{p.stdout[-1500:]}')
        return pickle.loads(outp.read_bytes())
    finally:
        for f_ in (inp, outp):
            try:
                f_.unlink()
            except OSError:
                pass


def main_wrapper(fn: Callable[[], int]) -> None:
    # a check never hangs: after a (generous) limit it ends as a machinery error
    import threading
    limit = int(os.environ.get('VERIF_CHECK_TIMEOUT',
                               '3600' if os.environ.get('VERIF_TIER_RUNNING', 'quick') == 'quick' else '28000'))

    def on_limit():
        print(f'MACHINERY-ERROR: the check did not finish within {limit} s', file=sys.stderr)
        sys.stderr.flush()
        os._exit(2)
    wd = threading.Timer(limit, on_limit)
    wd.daemon = True
    wd.start()
    try:
        rc = fn()
    except MachineryError as e:
        print(f'MACHINERY-ERROR: {e}', file=sys.stderr)
        sys.exit(2)
    sys.exit(rc)


def repo_test_events(test_paths: Sequence[str]) -> List[Dict[str, Any]]:
    """Runs the repository's own tests under the recording plugin and returns
    the trace events of what they did (the tests are not edited)."""
    import subprocess
    out = tlc.fresh('rec')
    env = dict(os.environ)
    env['VERIF_REC_FILE'] = str(out)
    env['PYTHONPATH'] = f'{REPO}:{VERIF}:{VERIF / ".pydeps"}'
    p = subprocess.run([sys.executable, '-m', 'pytest', '-q', '-p', 'no:cacheprovider',
                        '-p', 'harness.pytest_rec', *test_paths],
                       cwd=str(REPO), env=env, stdout=subprocess.PIPE, stderr=subprocess.STDOUT,
                       text=True, timeout=1800)
    if not out.exists():
        raise MachineryError(f'recording plugin produced no events:\n{p.stdout[-2000:]}')
    evs = [json.loads(l) for l in out.read_text().splitlines() if l.strip()]
    out.unlink()
    return evs
