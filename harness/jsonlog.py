"""C12 and the JSON half of C17: the streaming JSON writers and JsonParser
against JsonLog.tla (through JsonLogTrace.tla)."""
from __future__ import annotations

import io
import json
from pathlib import Path
from typing import Any, Dict, List, Optional, Tuple

from . import tlc
from .core import (Check, MachineryError, REPO, design_check, pmap,
                   report_rejects, rng, seed, validate_traces)
from .play import card, cnum, cards_sorted, make_hands, random_deal, shaped_deal

NOCALL, NOSEAT = 38, 4
LOG_FIELDS = ['players', 'board_id', 'dealer', 'deal', 'vulnerability',
              'bid_history', 'contract', 'declarer', 'play_history',
              'taken_trick', 'score_type', 'scores', 'dda']
SET_FIELDS = ['board_id', 'dealer', 'deal', 'vulnerability', 'dda']
NONE = {'none': True}
NULL = {'null': True}


def _imp():
    from bridge_env import (Bid, Card, Contract, Hands, Pair, Player, Suit,
                            TrickHistory, Vul)
    return Bid, Card, Contract, Hands, Pair, Player, Suit, TrickHistory, Vul


def cps(s: str) -> List[int]:
    return [ord(ch) for ch in s]


class RecIO:
    """A text sink that records every write(chunk) call.  With `encoding` it
    behaves like a text file opened with that encoding: a chunk that cannot be
    encoded raises UnicodeEncodeError (as open(path, 'w') does under an ASCII
    or cp1252 locale)."""

    def __init__(self, encoding: Optional[str] = None):
        self.chunks: List[str] = []
        self.encoding = encoding

    def write(self, s):
        if self.encoding is not None and isinstance(s, str):
            s.encode(self.encoding)
        self.chunks.append(s)
        return len(s) if isinstance(s, str) else 0

    def take(self) -> List[str]:
        c, self.chunks = self.chunks, []
        return c


# --------------------------------------------------------------------------
# random values
# --------------------------------------------------------------------------
def rand_text(r, maxlen=12) -> str:
    kinds = r.random()
    if kinds < 0.08:
        # texts that are falsy, or look like numbers / JSON words
        return r.choice(['0', '', '00', 'None', 'null', 'false', 'true', '-1', '1e3', ' 7', 'NaN', '007',
                         # not in Unicode normal form C (they must come back as they are)
                         'Ame\u0301lie', 'board-\u2126', '\u1100\u1161', 'A\u030a \u212b', 'n\u0303o'])
    n = r.randrange(0, maxlen)
    out = []
    for _ in range(n):
        k = r.random()
        if k < 0.5:
            out.append(chr(r.randrange(32, 127)))
        elif k < 0.6:
            out.append(r.choice('"\\/\b\f\n\r\t'))
        elif k < 0.7:
            out.append(chr(r.randrange(0, 32)))
        elif k < 0.85:
            # (no surrogate code points: they are not Unicode text, and two of
            # them side by side cannot be told from one character in JSON)
            out.append(chr(r.randrange(0xA0, 0xD7FF)))
        elif k < 0.93:
            out.append(chr(r.randrange(0xE000, 0xFFFF)))
        else:
            out.append(chr(r.randrange(0x10000, 0x10FFFF)))
    return ''.join(out)


def rand_dda(r):
    Bid, Card, Contract, Hands, Pair, Player, Suit, TH, Vul = _imp()
    if r.random() < 0.5:
        return None
    if r.random() < 0.15:
        return {p: {s: 0 for s in Suit} for p in Player}          # an all-zero table is a table
    t = {p: {s: r.randrange(0, 14) for s in Suit} for p in Player}
    u = r.random()
    if u < 0.3:
        # partners take the same number of tricks in a strain more often than not:
        # equal rows for the two members of a side
        t[Player.S] = dict(t[Player.N])
        if r.random() < 0.6:
            t[Player.W] = dict(t[Player.E])
    if r.random() < 0.4:
        # a table is a mapping: it may have been filled in any order (starting at the
        # dealer, side by side ...) and its rows in any order of the strains
        order = list(Player)
        r.shuffle(order)
        so = list(Suit)
        r.shuffle(so)
        t = {p: {s_: t[p][s_] for s_ in so} for p in order}
    return t


class PipeText:
    """A text stream that can only be read forward (a pipe, standard input, a
    socket file): read / readline / iteration, no seek, no tell."""

    def __init__(self, text: str):
        self._s = io.StringIO(text)

    def read(self, n=-1):
        return self._s.read(n)

    def readline(self, *a):
        return self._s.readline(*a)

    def __iter__(self):
        return iter(self._s)

    def seekable(self):
        return False

    def readable(self):
        return True

    def seek(self, *a):
        raise io.UnsupportedOperation('underlying stream is not seekable')

    def tell(self):
        raise io.UnsupportedOperation('underlying stream is not seekable')

    def close(self):
        pass

    def __enter__(self):
        return self

    def __exit__(self, *a):
        return False


def proj_dda(dda) -> Dict[str, Any]:
    Bid, Card, Contract, Hands, Pair, Player, Suit, TH, Vul = _imp()
    if dda is None:
        return NONE
    return {'v': [[dda[p][s] for s in Suit] for p in Player]}


def rand_result(r):
    """Arguments of JsonLogWriter.write and their projection."""
    Bid, Card, Contract, Hands, Pair, Player, Suit, TH, Vul = _imp()
    from bridge_env.data_handler.pbn_handler.writer import Scoring
    from bridge_env.playing_phase import PlayingHistory
    from .auction import random_history
    dl = shaped_deal(r) if r.random() < 0.3 else random_deal(r)
    if r.random() < 0.05:
        for s in r.sample(range(4), r.randrange(1, 4)):
            dl[s] = []
    dealer = r.randrange(4)
    style = r.random()
    if style < 0.5:
        d, v, hist = random_history(r, r.choice(['uniform', 'passy', 'doubly', 'slow']))
        from bridge_env import BiddingPhase
        bp = BiddingPhase(dealer=Player(d + 1), vul=Vul(v + 1))
        for c in hist:
            bp.take_bid(Bid.int_to_bid(c))
        contract = bp.contract()
        dealer = d
        if contract is None:
            contract = Contract(None, vul=Vul(v + 1))
        bids = list(bp.bid_history)
    else:
        po = r.random() < 0.2
        v = r.randrange(4)
        if po:
            contract = Contract(r.choice([None, Bid.Pass]), vul=Vul(v + 1))
            bids = [Bid.Pass] * 4
        else:
            x, xx = r.choice([(False, False), (True, False), (True, True), (False, True)])
            contract = Contract(Bid.int_to_bid(r.randrange(35)), x=x, xx=xx, vul=Vul(v + 1),
                                declarer=Player(r.randrange(4) + 1))
            bids = [Bid.int_to_bid(r.randrange(38)) for _ in range(r.randrange(0, 12))]
    po = contract.is_passed_out()
    recorded = None
    if po:
        play, taken = None, None
        if r.random() < 0.15:
            play, recorded = PlayingHistory(contract), []     # an empty history object, not None
    elif r.random() < 0.1:
        play, taken, recorded = None, r.randrange(0, 14), None   # a result-only record: no play kept
    else:
        play = PlayingHistory(contract)
        ntr = r.choice([0, 1, 13, 13, 13, r.randrange(0, 14)])
        pack = list(range(52))
        r.shuffle(pack)
        peek_at = r.randrange(0, 14) if r.random() < 0.4 else -1
        recorded = []            # what was recorded, kept by the driver itself
        for k in range(ntr):
            recorded.append({'leader': None, 'cards': pack[4 * k:4 * k + 4]})
            if k == peek_at:
                # somebody looks at the history while the board is being played
                # (a progress display, a checkpoint)
                _ = len(play.history), [t.cards for t in play.history]
            ld = r.randrange(4)
            recorded[-1]['leader'] = ld
            play.record(k + 1, TH(Player(ld + 1),
                                  tuple(card(c) for c in pack[4 * k:4 * k + 4])))
        taken = r.randrange(0, 14)
    scoring = r.choice(list(Scoring))
    sc = r.choice([0, 50, -100, 420, -7600, 7600, r.randrange(-8000, 8000)])
    scores = {Pair.NS: sc, Pair.EW: -sc if r.random() < 0.85 else r.randrange(-100, 100)}
    if r.random() < 0.08:
        # scoring forms that are not zero-sum: one side's score is 0, the other's is not
        scores = r.choice([{Pair.NS: 620, Pair.EW: 0}, {Pair.NS: 0, Pair.EW: 100},
                           {Pair.NS: 0, Pair.EW: -50}, {Pair.NS: -7600, Pair.EW: 0}])
    dda = rand_dda(r)
    names = [rand_text(r) for _ in range(4)]       # N, E, S, W
    bid_ = rand_text(r)
    kw = dict(board_id=bid_, north_player=names[0], east_player=names[1],
              south_player=names[2], west_player=names[3], dealer=Player(dealer + 1),
              deal=make_hands(dl), scoring=scoring, bid_history=bids, contract=contract,
              play_history=play, taken_trick_num=taken, scores=scores, dda=dda)
    fb = contract.final_bid
    rec = {'id': cps(bid_), 'names': [cps(n) for n in names], 'dealer': dealer,
           'deal': [sorted(h) for h in dl], 'bids': [b.idx for b in bids],
           'contract': {'bid': NOCALL if fb is None else fb.idx, 'x': bool(contract.x),
                        'xx': bool(contract.xx), 'vul': contract.vul.value - 1,
                        'decl': NOSEAT if contract.declarer is None else contract.declarer.value - 1},
           'play': NONE if play is None else
           {'v': [{'leader': t['leader'], 'cards': list(t['cards'])} for t in (recorded or [])]},
           'taken': NONE if taken is None else {'v': taken},
           'scoring': scoring.value, 'scores': [scores[Pair.NS], scores[Pair.EW]],
           'dda': proj_dda(dda)}
    return kw, rec


def rand_setting(r):
    Bid, Card, Contract, Hands, Pair, Player, Suit, TH, Vul = _imp()
    dl = shaped_deal(r) if r.random() < 0.3 else random_deal(r)
    dealer, v = r.randrange(4), r.randrange(4)
    dda = rand_dda(r)
    bid_ = rand_text(r)
    kw = dict(board_id=bid_, dealer=Player(dealer + 1), deal=make_hands(dl),
              vul=Vul(v + 1), dda=dda)
    rec = {'id': cps(bid_), 'dealer': dealer, 'deal': [sorted(h) for h in dl],
           'vul': v, 'dda': proj_dda(dda)}
    return kw, rec


# --------------------------------------------------------------------------
# normalisation of what was written / read
# --------------------------------------------------------------------------
def jtype(x) -> str:
    if x is None:
        return 'null'
    if isinstance(x, bool):
        return 'boolean'
    if isinstance(x, int):
        return 'integer'
    if isinstance(x, float):
        return 'integer' if x.is_integer() else 'number'
    if isinstance(x, str):
        return 'string'
    if isinstance(x, list):
        return 'array'
    return 'object'


def paths_of(x, prefix='') -> List[List[str]]:
    out = []
    if prefix:
        out.append([prefix, jtype(x)])
    if isinstance(x, dict):
        for k, v in x.items():
            out.extend(paths_of(v, f'{prefix}.{k}' if prefix else k))
    elif isinstance(x, list):
        seen = set()
        for v in x:
            for p in paths_of(v, prefix + '[]'):
                if tuple(p) not in seen:
                    seen.add(tuple(p))
                    out.append(p)
    return out


def wrap_null(x):
    return NULL if x is None else {'v': x}


def norm_item(d: Any, kind: str) -> Tuple[Dict[str, Any], bool]:
    """The parsed JSON item in the shape JsonLog!LogItem / SettingItem has."""
    ok = isinstance(d, dict)
    if not ok:
        return {}, False
    fields = LOG_FIELDS if kind == 'logs' else SET_FIELDS
    ok = set(d) - {'dda'} == set(fields) - {'dda'}
    it: Dict[str, Any] = {}
    try:
        it['board_id'] = cps(d['board_id'])
        it['dealer'] = d['dealer']
        it['deal'] = [list(d['deal'][k]) for k in ('N', 'E', 'S', 'W')]
        ok = ok and set(d['deal']) == {'N', 'E', 'S', 'W'}
        it['vulnerability'] = d['vulnerability']
        if 'dda' in d:
            dd = d['dda']
            it['dda'] = {'v': [[dd[p][s] for s in ('C', 'D', 'H', 'S', 'NT')]
                               for p in ('N', 'E', 'S', 'W')]}
            ok = ok and set(dd) == {'N', 'E', 'S', 'W'} and \
                all(set(dd[p]) == {'C', 'D', 'H', 'S', 'NT'} for p in dd)
        else:
            it['dda'] = NONE
        if kind == 'logs':
            it['players'] = [cps(d['players'][k]) for k in ('N', 'E', 'S', 'W')]
            ok = ok and set(d['players']) == {'N', 'E', 'S', 'W'}
            it['bid_history'] = list(d['bid_history'])
            it['contract'] = d['contract']
            it['declarer'] = wrap_null(d['declarer'])
            ph = d['play_history']
            it['play_history'] = NULL if ph is None else \
                {'v': [{'leader': t['leader'], 'cards': list(t['cards'])} for t in ph]}
            if ph is not None:
                ok = ok and all(set(t) == {'leader', 'cards'} for t in ph)
            it['taken_trick'] = wrap_null(d['taken_trick'])
            it['score_type'] = d['score_type']
            it['scores'] = [d['scores']['NS'], d['scores']['EW']]
            ok = ok and set(d['scores']) == {'NS', 'EW'}
    except Exception:  # noqa
        return it, False
    return it, ok


def proj_log(bl) -> Dict[str, Any]:
    Bid, Card, Contract, Hands, Pair, Player, Suit, TH, Vul = _imp()
    c = bl.contract
    ok = True
    ok &= isinstance(bl.board_id, str) and isinstance(bl.hands, Hands)
    ok &= isinstance(bl.dealer, Player) and isinstance(bl.vul, Vul)
    ok &= bl.declarer is None or isinstance(bl.declarer, Player)
    ok &= isinstance(c, Contract)
    ok &= bl.taken_trick is None or type(bl.taken_trick) is int
    ok &= isinstance(bl.players, dict) and all(isinstance(k, Player) and isinstance(v, str)
                                                for k, v in bl.players.items())
    ok &= isinstance(bl.bid_history, list) and all(isinstance(b, Bid) for b in bl.bid_history)
    if bl.play_history is not None:
        ok &= all(isinstance(t, TH) and isinstance(t.leader, Player) and
                  isinstance(t.cards, tuple) and all(isinstance(x, Card) for x in t.cards)
                  for t in bl.play_history)
    ok &= isinstance(bl.score_type, str)
    ok &= isinstance(bl.scores, dict) and all(isinstance(k, Pair) and type(v) is int
                                               for k, v in bl.scores.items())
    if bl.dda is not None:
        ok &= all(isinstance(p, Player) and all(isinstance(s, Suit) and type(n) is int
                                                for s, n in d.items())
                  for p, d in bl.dda.items())

    def sv(x):            # seat -> int, tolerant of str (then types_ok is False)
        if isinstance(x, Player):
            return x.value - 1
        if isinstance(x, str) and x in 'NESW':
            return 'NESW'.index(x)
        return NOSEAT

    def score(side: str):
        sc = bl.scores
        for k, v in sc.items():
            if (k.name if isinstance(k, Pair) else str(k)) == side:
                return v
        return None
    fb = c.final_bid
    return {'id': cps(bl.board_id),
            'names': [cps(bl.players[p]) for p in Player],
            'dealer': sv(bl.dealer), 'deal': [cards_sorted(bl.hands[p]) for p in Player],
            'vul': bl.vul.value - 1, 'bids': [b.idx for b in bl.bid_history],
            'contract': {'bid': NOCALL if fb is None else fb.idx, 'x': bool(c.x), 'xx': bool(c.xx),
                         'vul': c.vul.value - 1,
                         'decl': NOSEAT if c.declarer is None else sv(c.declarer)},
            'decl': NOSEAT if bl.declarer is None else sv(bl.declarer),
            'play': NONE if bl.play_history is None else
            {'v': [{'leader': sv(t.leader), 'cards': [cnum(x) for x in t.cards]}
                   for t in bl.play_history]},
            'taken': NONE if bl.taken_trick is None else {'v': bl.taken_trick},
            'scoring': bl.score_type, 'scores': [score('NS'), score('EW')],
            'dda': NONE if bl.dda is None else
            {'v': [[bl.dda[p][s] for s in Suit] for p in Player]},
            'types_ok': bool(ok)}


def proj_setting(bs) -> Dict[str, Any]:
    Bid, Card, Contract, Hands, Pair, Player, Suit, TH, Vul = _imp()
    ok = isinstance(bs.board_id, str) and isinstance(bs.hands, Hands) and \
        isinstance(bs.dealer, Player) and isinstance(bs.vul, Vul)
    if bs.dda is not None:
        ok = ok and all(isinstance(p, Player) and all(isinstance(s, Suit) and type(n) is int
                                                      for s, n in d.items())
                        for p, d in bs.dda.items())
    return {'id': cps(bs.board_id), 'dealer': bs.dealer.value - 1,
            'deal': [cards_sorted(bs.hands[p]) for p in Player], 'vul': bs.vul.value - 1,
            'dda': NONE if bs.dda is None else
            {'v': [[bs.dda[p][s] for s in Suit] for p in Player]},
            'types_ok': bool(ok)}


# --------------------------------------------------------------------------
# shipped schemas
# --------------------------------------------------------------------------
_validators: Dict[str, Any] = {}


def schema_validator(kind: str):
    if kind in _validators:
        return _validators[kind]
    try:
        import jsonschema
        from referencing import Registry, Resource
        from referencing.jsonschema import DRAFT7
    except Exception:  # noqa
        _validators[kind] = None
        return None
    base = REPO / 'bridge_env' / 'data_handler' / 'json_handler'
    setting = json.loads((base / 'board_setting_format.schema.json').read_text())
    log = json.loads((base / 'log_format.schema.json').read_text())
    reg = Registry().with_resources([
        ('board_setting_format.schema.json', Resource(contents=setting, specification=DRAFT7)),
        ('log_format.schema.json', Resource(contents=log, specification=DRAFT7))])
    v = jsonschema.Draft7Validator(log if kind == 'logs' else setting, registry=reg)
    _validators[kind] = v
    return v


def item_validator(kind: str):
    key = kind + ':item'
    if key in _validators:
        return _validators[key]
    v = schema_validator(kind)
    if v is None:
        _validators[key] = None
        return None
    import jsonschema
    tag = 'logs' if kind == 'logs' else 'board_settings'
    item_schema = dict(v.schema['properties'][tag]['items'])
    if 'definitions' in v.schema:
        item_schema['definitions'] = v.schema['definitions']
    iv = jsonschema.Draft7Validator(item_schema, registry=v._registry) \
        if hasattr(v, '_registry') else jsonschema.Draft7Validator(item_schema)
    _validators[key] = iv
    return iv


# --------------------------------------------------------------------------
# one writer session
# --------------------------------------------------------------------------
def session(job) -> List[Dict[str, Any]]:
    tid, kind, n, sd, with_fail, misuse = job[:6]
    ctx = job[6] if len(job) > 6 else None     # None | 'normal' | 'exception' | 'interrupt'
    align = job[7] if len(job) > 7 else None   # (B, delta): a record of the document ends at offset B + delta
    Bid, Card, Contract, Hands, Pair, Player, Suit, TH, Vul = _imp()
    from bridge_env.data_handler.json_handler.parser import JsonParser
    from bridge_env.data_handler.json_handler.writer import (JsonBoardSettingWriter,
                                                             JsonLogWriter)
    r = rng('json', sd, tid)
    sink = RecIO([None, None, 'ascii', 'cp1252', 'utf-8'][r.randrange(5)] if ctx is None and align is None else None)
    dup_ids = r.random() < 0.2 and align is None        # several boards with the same id (two tables, a replay)
    wr = JsonLogWriter(sink) if kind == 'logs' else JsonBoardSettingWriter(sink)
    evs: List[Dict[str, Any]] = [{'tid': tid, 'ev': 'begin', 'kind': kind}]
    all_chunks: List[str] = []
    fields = LOG_FIELDS if kind == 'logs' else SET_FIELDS
    iv = item_validator(kind)

    def emit_chunks():
        for ch in sink.take():
            all_chunks.append(ch if isinstance(ch, str) else repr(ch))
            e: Dict[str, Any] = {'tid': tid, 'ev': 'chunk'}
            try:
                d = json.loads(ch)
                it, ok = norm_item(d, kind)
                if not isinstance(d, dict):
                    raise ValueError
                e.update({'item': it, 'keys_ok': ok, 'fields': fields if ok else [],
                          'paths': paths_of(d),
                          'item_schema_ok': True if iv is None else iv.is_valid(d)})
            except Exception:  # noqa
                e['text'] = ch if isinstance(ch, str) and ch.isascii() else '<non-ascii>'
            evs.append(e)

    def call(op, fn, rec=None):
        e: Dict[str, Any] = {'tid': tid, 'ev': 'call', 'op': op}
        if rec is not None:
            e['rec'] = rec
        try:
            fn()
            e['raised'] = False
        except Exception as ex:  # noqa
            e['raised'] = True
            e['msg'] = f'{type(ex).__name__}: {ex}'[:80]
        evs.append(e)
        emit_chunks()

    gen = rand_result if kind == 'logs' else rand_setting
    if misuse:                       # write before open: must raise, emit nothing
        kw, rec = gen(r)
        call('write', lambda: wr.write(**kw), rec)
    call('open', wr.open if ctx is None else wr.__enter__)
    first_id = None
    for k in range(n):
        kw, rec = gen(r)
        if dup_ids:
            if first_id is None:
                first_id = (kw['board_id'], rec['id'])
            elif k % 2 == 0:
                kw['board_id'], rec['id'] = first_id
        if with_fail and k == n // 2:
            bad = dict(kw)
            if kind == 'logs':
                bad['taken_trick_num'] = object()     # not serialisable
            else:
                bad['board_id'] = object()
            call('write_fail', lambda: wr.write(**bad))
        if align is not None and k == max(0, n - 2):
            # the board id is padded so that this record ends exactly at (or one
            # before / behind) a size readers like for their blocks
            scratch = RecIO(None)
            w2 = JsonLogWriter(scratch) if kind == 'logs' else JsonBoardSettingWriter(scratch)
            w2.open()
            if k > 0:
                w2.write(**kw)
            scratch.take()
            w2.write(**kw)
            grow = sum(len(ch) for ch in scratch.take())
            pad = align[0] + align[1] - sum(len(ch) for ch in all_chunks) - grow
            if pad > 0:
                kw['board_id'] = str(kw['board_id']) + 'p' * pad
                rec['id'] = cps(kw['board_id'])
        call('write', lambda: wr.write(**kw), rec)
    if ctx is None:
        call('close', wr.close)
    elif ctx == 'normal':
        call('close', lambda: wr.__exit__(None, None, None))
    else:
        # the with-block is left by an exception (of the caller, or an operator
        # interrupt): the document must still be completed
        ex = RuntimeError('caller failed') if ctx == 'exception' else KeyboardInterrupt()
        call('close', lambda: wr.__exit__(type(ex), ex, None))
    if misuse:                       # write after close: must raise, emit nothing
        kw, rec = gen(r)
        call('write', lambda: wr.write(**kw), rec)
    text = ''.join(all_chunks)
    doc: Dict[str, Any] = {'tid': tid, 'ev': 'doc', 'json_ok': False, 'schema_ok': False,
                           'nitems': -1}
    try:
        parsed = json.loads(text)
        doc['json_ok'] = True
        tag = 'logs' if kind == 'logs' else 'board_settings'
        doc['nitems'] = len(parsed[tag]) if isinstance(parsed, dict) and tag in parsed else -1
        v = schema_validator(kind)
        doc['schema_ok'] = True if v is None else v.is_valid(parsed)
        if v is not None and not doc['schema_ok']:
            doc['schema_errors'] = [f'{list(er.absolute_path)}: {er.message}'[:160]
                                    for er in list(v.iter_errors(parsed))[:3]]
    except Exception as ex:  # noqa
        doc['msg'] = f'{type(ex).__name__}: {ex}'[:120]
    evs.append(doc)
    if kind == 'logs':
        e = {'tid': tid, 'ev': 'read', 'recs': [], 'raised': False}
        try:
            # (every other document arrives through a stream that can only be read forward)
            src = PipeText(text) if sum(map(ord, str(tid))) % 2 else io.StringIO(text)
            e['recs'] = [proj_log(b) for b in JsonParser().parse_board_logs(src)]
        except Exception as ex:  # noqa
            e['raised'] = True
            e['msg'] = f'{type(ex).__name__}: {ex}'[:120]
        evs.append(e)
    e = {'tid': tid, 'ev': 'read_settings', 'recs': [], 'raised': False}
    try:
        src2 = PipeText(text) if sum(map(ord, str(tid))) % 3 == 0 else io.StringIO(text)
        e['recs'] = [proj_setting(b) for b in
                     JsonParser().parse_board_settings(src2)]
    except Exception as ex:  # noqa
        e['raised'] = True
        e['msg'] = f'{type(ex).__name__}: {ex}'[:120]
    evs.append(e)
    return evs


def run(pid: str, tier: str) -> int:
    chk = Check(pid, tier)
    chk.rule = ('a case is one writer session (open, n writes, close) read '
                'back by the real parser; distinct_nontrivial counts distinct '
                'written records in sessions with at least one record')
    run_into(chk, ['logs'], tier)
    return chk.finish()


def run_into(chk: Check, kinds: List[str], tier: str) -> None:
    quick = tier == 'quick'
    chk.assumptions += [
        '"one valid JSON document" is decided by json.loads and conformance to '
        'the SHIPPED schema files by the jsonschema library (non-TLA+ oracles); '
        'the schema transcribed in JsonLog.tla is cross-checked against it',
        'TLC decides framing, item content (through Notation.tla), record '
        'count/order and the field-by-field round trip',
        'names and ids are arbitrary code-point strings (no surrogates)']
    design_check(chk, 'JsonLog',
                 tlc.cfg_text(specification='Spec',
                              invariants=['ClosedIsWellFormed', 'OpenIsPrefix']),
                 'JsonWriter machine: every open / write^n / close sequence, n <= 4',
                 constants='MaxWrites=4', workers=2)
    nses = 60 if quick else 2500
    jobs = []
    for kind in kinds:
        for k in range(nses):
            n = [0, 1, 2, 3, 6][k % 5] if k % 11 else 12
            jobs.append((f'{kind[0]}{k}', kind, n, seed(), k % 7 == 3 and n > 0, k % 13 == 5,
                         [None, 'normal', None, 'exception', None, 'interrupt'][k % 6]))
    # documents in which a record ends exactly at / next to the sizes a reader
    # may use for its blocks (4 Ki, 8 Ki, 64 Ki, 128 Ki characters)
    aligns = [(65536, 0), (65536, -1), (8192, 0)] if quick else \
        [(b_, d_) for b_ in (4096, 8192, 65536, 131072) for d_ in (0, -1, 1, -2)]
    for kind in kinds:
        for k, al in enumerate(aligns):
            jobs.append((f'{kind[0]}al{k}', kind, 2 + k % 3, seed(), False, False, None, al))
    events: List[Dict[str, Any]] = []
    for evs in pmap(session, jobs, chunk=4):
        events.extend(evs)
    nrec = 0
    for e in events:
        if e['ev'] == 'call' and e['op'] == 'write' and not e['raised']:
            nrec += 1
            chk.distinct.add(hash(json.dumps(e['rec'], sort_keys=True)))
        chk.evaluations += 1
    chk.sample([e for e in events if e['ev'] == 'call' and e['op'] == 'write'][0])
    chk.sample([e for e in events if e['ev'] == 'doc'][0])
    chk.extra['events'] = len(events)
    chk.extra['sessions'] = len(jobs)
    chk.extra['records_written'] = nrec
    chk.extra['jsonschema_available'] = schema_validator(kinds[0]) is not None
    rejects = validate_traces(chk, 'JsonLogTrace', events,
                              'real JSON writers / parser vs JsonLog.tla', heap='4g')
    real = []
    for x in rejects:
        if 'SCHEMA-DRIFT' in x.clause and x.clause.count(',') == 0 and \
                x.event.get('item_schema_ok', True):
            chk.note('the schema transcribed in JsonLog.tla rejects an item the shipped '
                     f'schema accepts (transcription drift): {x.event.get("paths")}'[:400])
            continue
        real.append(x)
    report_rejects(chk, real, 'json', key_of=lambda x: f'json:{x.clause}'[:200])
