"""C08, C09, C10, C11 (network), C13, C20: sessions of the real table manager
under the baton, validated by TableTrace.tla against TableObs.tla; design
checks of the concurrent model Table.tla."""
from __future__ import annotations

import json
import random as _random
from typing import Any, Dict, List, Optional, Sequence, Tuple

from . import baton, tlc
from .core import (Check, MachineryError, NCPU, design_check, pmap,
                   report_rejects, rng, seed, validate_traces)
from .jsonlog import LOG_FIELDS, NONE, cps, norm_item, proj_dda
from .play import random_deal, shaped_deal
from .session import run_session

NOSEAT, NOCALL = 4, 38
ID_CHARS = 'abcdefghijklmnopqrstuvwxyzABCDEFGHIJKLMNOPQRSTUVWXYZ0123456789 -_.#'


# --------------------------------------------------------------------------
# scheduling policies by name (so that configurations can be pickled)
# --------------------------------------------------------------------------
def make_policy(spec: Tuple, rnd) -> baton.Policy:
    kind = spec[0]
    if kind == 'fifo':
        return baton.Fifo()
    if kind == 'random':
        return baton.RandomPolicy(rnd, change=spec[1] if len(spec) > 1 else 0.03)
    if kind == 'uniform':
        return baton.UniformPolicy(rnd)
    if kind == 'sticky':
        return baton.RandomPolicy(rnd, change=0.05, sticky=0.8)
    if kind == 'script':
        return baton.ScriptPolicy(list(spec[1]), baton.Fifo())
    if kind == 'stall':
        base = baton.Fifo() if len(spec) < 4 or spec[3] == 'fifo' else baton.RandomPolicy(rnd, 0.03)
        return baton.StallPolicy(spec[1], spec[2], base)
    raise ValueError(kind)


def rand_id(r) -> str:
    return ''.join(r.choice(ID_CHARS) for _ in range(r.randrange(1, 9)))


def rand_boards(r, n: int) -> List[tuple]:
    out = []
    for k in range(n):
        dl = shaped_deal(r) if r.random() < 0.3 else random_deal(r)
        dda = None
        if r.random() < 0.3:
            from bridge_env import Player, Suit
            dda = {p: {s: r.randrange(14) for s in Suit} for p in Player}
        bid_ = rand_id(r)
        if r.random() < 0.15:
            # identifiers that are falsy, or look like numbers / JSON words
            bid_ = r.choice(['0', '', '00', 'None', 'null', 'false', '-1', '1e3', ' 7'])
        if dda is not None and r.random() < 0.3:
            dda = {p: {s: 0 for s in v} for p, v in dda.items()}     # an all-zero table
        out.append((dl, r.randrange(4), r.randrange(4), bid_, dda))
    return out


# --------------------------------------------------------------------------
# session -> event
# --------------------------------------------------------------------------
def session_event(tid: str, cfg: Dict[str, Any], res: Dict[str, Any], kind: str,
                  completed: Optional[int] = None) -> Dict[str, Any]:
    boards = [{'deal': [sorted(h) for h in dl], 'dealer': d, 'vul': v, 'id': cps(bid_),
               'dda': proj_dda(dda)} for (dl, d, v, bid_, dda) in cfg['boards']]
    teams = list(cfg.get('teams', ('teamNS', 'teamEW')))
    clients = sorted([c for c in res['conns'] if c['kind'] == 'client'], key=lambda c: c['idx'])
    # decisions with what went on the wire: pair, per deciding client, its
    # decisions with its wire entries (both in program order)
    wire_pos = {c['seat']: 0 for c in clients}
    wire = {c['seat']: c['wire'] for c in clients}
    decs = [{'calls': [], 'cards': []} for _ in boards]
    if cfg.get('offers'):
        for d_ in decs:
            d_['offers'] = []
    paired_ok = True
    for d in res['decisions']:
        by = d['by']
        k = wire_pos.get(by, 0)
        if by not in wire or k >= len(wire[by]):
            paired_ok = False         # decided but never sent (client died first)
            continue
        wentry = wire[by][k]
        wire_pos[by] = k + 1
        b = d['board'] - 1
        if not (0 <= b < len(boards)):
            paired_ok = False
            continue
        if d['kind'] == 'call':
            decs[b]['calls'].append({'seat': d['seat'], 'call': d['value'],
                                     'sent': wentry['sent'], 'relay': wentry['relay']})
        else:
            decs[b]['cards'].append({'seat': d['seat'], 'card': d['value'],
                                     'sent': wentry['sent']})
            if cfg.get('offers'):
                decs[b]['offers'].append({'offered': d.get('offered', []),
                                                          'held': d.get('held', [])})
    by_seat = {c['seat']: c for c in clients}
    s2c = [[t for (_, t) in by_seat[s]['s2c']] if s in by_seat else [] for s in range(4)]
    c2s = [[t for (_, t) in by_seat[s]['c2s']] if s in by_seat else [] for s in range(4)]
    f: Dict[str, Any] = {'present': res['file'] is not None, 'json_ok': False, 'nitems': -1,
                         'items': [], 'keys_ok': True, 'fields': LOG_FIELDS}
    if res['file'] is not None:
        try:
            doc = json.loads(res['file'])
            f['json_ok'] = isinstance(doc, dict) and list(doc) == ['logs'] and \
                isinstance(doc['logs'], list)
            if f['json_ok']:
                f['nitems'] = len(doc['logs'])
                for it in doc['logs']:
                    n, ok = norm_item(it, 'logs')
                    f['items'].append(n)
                    f['keys_ok'] = f['keys_ok'] and ok
        except ValueError:
            pass
    # the log as it was on disk each time a seat was told "End of session"
    snaps_ok = True
    for snap in res.get('end_snapshots', []):
        try:
            doc = json.loads(snap) if snap is not None else None
            snaps_ok = snaps_ok and isinstance(doc, dict) and len(doc.get('logs', [])) == len(boards)
        except ValueError:
            snaps_ok = False
    f['complete_when_declared_over'] = snaps_ok
    seats = res['seat_threads']
    done = {'verdict': res['verdict'], 'main_exc': res['main_exc'] is not None,
            'main_done': res['main_done'],
            'seats_done_at_return': bool(res.get('seats_done_at_main_return', True)),
            'seats_done': all(t['done'] for t in seats),
            'seats_exc': any(t['exc'] for t in seats),
            'clients_exc': any(c['exc'] for c in clients),
            # a client program that returned normally was told "End of session" first
            'clients_left_early': any(c.get('finished') and not c['exc'] and
                                      (not c['s2c'] or c['s2c'][-1][1] != 'End of session')
                                      for c in clients),
            'paired_ok': paired_ok}
    e: Dict[str, Any] = {'tid': tid, 'ev': 'session', 'kind': kind, 'boards': boards,
                         'teams': teams, 'teams_cps': [cps(t) for t in teams], 'decs': decs,
                         's2c': s2c, 'c2s': c2s, 'file': f, 'done': done,
                         'replicas': res['replicas'],
                         'completed': len(boards) if completed is None else completed,
                         'info': {'nblocks': res['nblocks'],
                                  'blocked': [list(b) for b in res['blocked']],
                                  'main_exc': str(res['main_exc']),
                                  'client_exc': [str(c['exc']) for c in clients],
                                  'policy': [str(x) for x in cfg['policy_spec']],
                                  'seed': cfg['seed']}}
    return e


def interrupt_point(cfg: Dict[str, Any]) -> Optional[int]:
    """The scheduling point of the main thread (1-based) at which to deliver
    the operator interrupt: one of its queue reads inside the chosen board,
    found by a dry run of the same (deterministic) session."""
    dry = dict(cfg)
    dry['record_blocks'] = True
    dry.pop('interrupt', None)
    res = run_session(dry)
    pts = [(op, obj) for (th, op, obj) in res['blocks'] if th == 'main']
    # the first block of main is its 'begin'; point j is block j+1
    bars = 0
    per_board: Dict[int, List[int]] = {}
    for j, (op, obj) in enumerate(pts):
        if op == 'bar.enter':
            bars += 1
        if op in ('q.get', 'sleep') and bars >= 3:       # queue reads and the pause of every trick
            board = (bars - 1) // 2          # 1 seating barrier, then 2 per board
            per_board.setdefault(board, []).append(j)
        elif op in ('bar.enter', 'bar.wait') and bars >= 2 and cfg.get('interrupt_in_barriers'):
            # the two barriers of the deal of board bars // 2 (before the wait and inside it)
            per_board.setdefault(bars // 2, []).append(j)
    cand = per_board.get(cfg['interrupt_board'])
    if not cand:
        return None
    return cand[int(cfg['interrupt_frac'] * len(cand)) % len(cand)]


def run_job(job) -> Dict[str, Any]:
    tid, cfg, kind, completed = job
    cfg = dict(cfg)
    spec = cfg['policy_spec']
    cfg['policy'] = lambda rnd: make_policy(spec, rnd)
    cfg['outdir'] = str(tlc.workdir())
    cfg['tag'] = tid
    cfg.setdefault('record_blocks', False)
    if 'interrupt_board' in cfg:
        cfg['interrupt'] = interrupt_point(cfg)
    if cfg.get('twice'):
        # the same configuration objects (list of board settings) serve a
        # second session, e.g. the other table of a match: the first session
        # must not have consumed or altered them
        first = run_session(cfg)
        cfg['settings_obj'] = first['settings_obj']
        cfg['seed'] = cfg['seed'] + 1
    res = run_session(cfg)
    e = session_event(tid, cfg, res, kind, completed)
    fault = cfg.get('fault')
    if kind == 'abort' and fault:
        # what the offender put on the wire must not have been passed on
        off = next((c for c in res['conns'] if c['seat'] == fault['seat']), None)
        sent = list(off['c2s']) if off else []
        legit = {w['sent'] for w in (off['wire'] if off else [])}
        offence = [(q_, t) for (q_, t) in sent
                   if ('plays' in t.lower() or 'bids' in t.lower() or 'passes' in t.lower()
                       or 'doubles' in t.lower() or 'frobnicates' in t.lower()) and t not in legit]
        # only for offences whose text cannot also be a legitimate message of
        # the board (garbage, a card neither the seat nor its partner holds), and
        # only what the other seats were sent AFTER the offence (the same text may
        # have been a legitimate play of an earlier board)
        ok_kind = bool(offence) and fault['kind'] in ('garbage', 'not-held')
        e['offence'] = offence[-1][1] if ok_kind else ''
        after = offence[-1][0] if ok_kind else 0
        e['s2c_all'] = [[t for (q_, t) in c['s2c'] if q_ > after]
                        for c in res['conns'] if c['seat'] != fault['seat']]
    if res.get('second') is not None:
        e2 = session_event(tid + 'B', cfg['second'], res['second'], kind, completed)
        e['second_event'] = e2
    if cfg.get('want_points'):
        e['info']['npoints'] = res.get('npoints')
    if kind == 'admission':
        e['requests'] = [{'seat': rq['seat'], 'team': rq['team'], 'version': rq.get('version', 18)}
                         for rq in cfg['requesters']]
        conns = sorted(res['conns'], key=lambda c: c['idx'])
        e['conns'] = [{'s2c': [t for (_, t) in c['s2c']], 'server_closed': bool(c['server_closed']),
                       'kind': c['kind']} for c in conns]
    return e


# --------------------------------------------------------------------------
# families of sessions
# --------------------------------------------------------------------------
POLICIES = [('fifo',), ('random', 0.03), ('random', 0.2), ('uniform',), ('sticky',)]


def normal_jobs(r, n: int, prefix: str, max_boards: int = 3) -> List[tuple]:
    jobs = []
    for k in range(n):
        nb = 1 + k % max_boards
        boards = rand_boards(r, nb)
        styles = []
        po = set()
        if k % 3 == 0:
            po = {1 + (k // 3) % nb}            # a passed-out board in every position
        if k % 11 == 5:
            po = set(range(1, nb + 1))          # only passed-out boards
        mode = ['short', 'short', 'weak', 'short'][k % 4]
        for s in range(4):
            styles.append({'auction': mode, 'passout_boards': po,
                           'ppass': [0.45, 0.2, 0.7][k % 3],
                           'play': 'revoke' if k % 5 == 2 else 'ruff-low' if k % 5 == 4 else 'legal'})
        cfg = {'boards': boards, 'seed': r.randrange(1 << 30), 'styles': styles,
               'vary': k % 4 != 3, 'policy_spec': POLICIES[k % len(POLICIES)],
               'teams': (rand_id(r).strip() or 'a', rand_id(r).strip() or 'b'),
               'twice': k % 8 == 6,
               # the command line ends the process when Server.run returns
               'exit_after_run': k % 4 == 1,
               'stale_output': k % 6 == 2,
               # the command lines of server and client switch DEBUG logging on
               'debug_logging': k % 5 == 3,
               # the transport delivers what is sent in segments
               'segment': k % 3 == 1,
               # the players keep their connections open until run() has returned
               'linger': k % 4 == 2}
        if k % 9 == 4:
            # team names outside ASCII
            cfg['teams'] = (r.choice(['Équipe Zürich', '東京', 'Ünïcødé']) + rand_id(r).strip(),
                            r.choice(['Łódź', 'Ελλάς', 'команда']) + rand_id(r).strip())
        if k % 7 == 3:
            # one seat's program thinks for a long time (virtual time) over a call
            sl = r.randrange(4)
            styles[sl] = dict(styles[sl], think={'board': 1 + k % nb, 'seconds': r.choice([31, 45, 100, 3700]),
                                                 'at': r.randrange(0, 3)})
        if k % 9 == 8:
            # team names that look like protocol text (no double quote in them)
            cfg['teams'] = (r.choice(['as North using', 'E/W : x', 'North plays 2C', 'Teams : N/S',
                                      "O'Neil (2)", 'version 18', ' lead ']) + rand_id(r).rstrip(),
                            r.choice(['x. E/W', 'seated', 'South bids 1NT', 'Dummy', '.e+-=',
                                      'ready for teams']) + rand_id(r).rstrip())
        if k % 10 == 7:
            # the other table of the match, alive in the same process
            b2 = rand_boards(r, 1 + k % 2)
            cfg['second'] = {'boards': b2, 'seed': r.randrange(1 << 30),
                             'styles': [{'auction': 'weak' if k % 4 else 'short'}] * 4,
                             'vary': False, 'policy_spec': cfg['policy_spec'],
                             'teams': (rand_id(r).strip() or 'c', rand_id(r).strip() or 'd')}
        jobs.append((f'{prefix}{k}', cfg, 'normal', None))
    # twin boards: the same deal turned by one seat, the same contract (3NT by the
    # dealer), the same one-sided vulnerability, the same play - only the declaring
    # SIDE differs, so the scores must differ (nothing may be keyed on less)
    for tw in range(2):
        dl = random_deal(r)
        dl2 = [dl[3], dl[0], dl[1], dl[2]]
        v1 = 1 + tw                                     # N/S, then E/W vulnerable
        boards = [(dl, 0, v1, 'twinA', None), (dl2, 1, v1, 'twinB', None),
                  ([dl[2], dl[3], dl[0], dl[1]], 2, v1, 'twinC', None)]
        styles = [{'script': [14 + 5 * tw, 35, 35, 35], 'play': 'lowest'}] * 4
        jobs.append((f'{prefix}twin{tw}', {'boards': boards, 'seed': r.randrange(1 << 30),
                                           'styles': styles, 'vary': False,
                                           'policy_spec': ('fifo',)}, 'normal', None))
    # the four shapes of a redoubled auction (by the bidder himself / by his partner,
    # directly over the double / after two passes), and a double after two passes
    for j, sc in enumerate([[0, 36, 35, 35, 37, 35, 35, 35], [0, 35, 35, 36, 37, 35, 35, 35],
                            [0, 36, 37, 35, 35, 35], [0, 35, 35, 36, 35, 35, 37, 35, 35, 35],
                            # the opener rebids his suit after partner's raise; a strain named
                            # by both sides; a balancing double passed out
                            [3, 35, 8, 35, 18, 35, 35, 35], [4, 9, 14, 35, 35, 35],
                            [2, 35, 35, 36, 35, 35, 35]]):
        jobs.append((f'{prefix}rdbl{j}', {'boards': rand_boards(r, 2), 'seed': r.randrange(1 << 30),
                                          'styles': [{'script': sc}] * 4, 'vary': j % 2 == 0,
                                          'policy_spec': POLICIES[j % len(POLICIES)]}, 'normal', None))
    # a board list in which a board is repeated (value-equal entries, the last included)
    bs = rand_boards(r, 2)
    jobs.append((f'{prefix}again', {'boards': [bs[0], bs[1], bs[0]], 'seed': r.randrange(1 << 30),
                                    'styles': [{'auction': 'weak', 'passout_boards': {3}}] * 4,
                                    'vary': False, 'policy_spec': ('random', 0.05)}, 'normal', None))
    # more than a hundred boards (all passed out but the last)
    if n >= 30:
        nb = 103
        boards = rand_boards(r, nb)
        styles = [{'auction': 'weak', 'passout_boards': set(range(1, nb)), 'play': 'ruff-low'}] * 4
        jobs.append((f'{prefix}hundred', {'boards': boards, 'seed': r.randrange(1 << 30), 'styles': styles,
                                          'vary': False, 'policy_spec': ('fifo',)}, 'normal', None))
    # a long session: twelve boards (two-digit board numbers), mostly passed out
    boards = rand_boards(r, 12)
    played = {r.randrange(1, 13), 10 + r.randrange(0, 3)}
    styles = [{'auction': 'weak', 'passout_boards': set(range(1, 13)) - played}] * 4
    jobs.append((f'{prefix}long', {'boards': boards, 'seed': r.randrange(1 << 30), 'styles': styles,
                                   'vary': True, 'policy_spec': ('random', 0.05)}, 'normal', None))
    return jobs


def schedule_jobs(r, n: int, prefix: str) -> List[tuple]:
    """One decision script (fixed seed), many schedules: stalls of every
    thread at many of its scheduling points, random and uniform schedules."""
    jobs = []
    threads = ['main', 'seat0', 'seat1', 'seat2', 'seat3', 'client0', 'client1',
               'client2', 'client3']
    k = 0
    while len(jobs) < n:
        nb = 1 + k % 2
        boards = rand_boards(r, nb)
        po = {1} if k % 3 == 0 else set()
        styles = [{'auction': 'weak' if k % 2 else 'short', 'passout_boards': po}] * 4
        base_seed = r.randrange(1 << 30)
        for j in range(12):
            if j < 8:
                victim = threads[(k + j) % len(threads)]
                # scheduling points cluster around the barriers early in each
                # board: stall points are drawn log-uniformly
                point = int(2 ** r.uniform(0, 9.5))
                spec = ('stall', victim, point, 'fifo' if j % 2 else 'random')
            elif j < 10:
                spec = ('random', [0.01, 0.3][j % 2])
            else:
                spec = ('uniform',)
            cfg = {'boards': boards, 'seed': base_seed, 'styles': styles, 'vary': False,
                   'policy_spec': spec}
            jobs.append((f'{prefix}{k}.{j}', cfg, 'normal', None))
        k += 1
    return jobs[:n]


def tlc_schedules(chk: Check, n: int, played: bool, sync: str = 'barrier',
                  want_deadlock: bool = False) -> Tuple[List[List[str]], tuple, List[int]]:
    """Behaviours of the Table model (simulation) as schedules: the order in
    which the threads take their steps."""
    from . import tablemodel
    r = rng('sched', played, sync)
    dealer = seed() % 4
    board = tablemodel.small_board(r, 1, dealer, (seed() + 1) % 4)
    calls = [0, 35, 35, 35] if played else [35, 35, 35, 35]
    script = tablemodel.script_for(*board, calls, 1, r)
    d = tablemodel.mc_module('MCTableS', tablemodel.GOOD, [board], [script])
    (d / 'MCTableS.tla').write_text((d / 'MCTableS.tla').read_text()
                                    .replace('EXTENDS Table\n', 'EXTENDS TableSched\n'))
    cfg = tablemodel.table_cfg(1, sync=sync,
                               invs=['ExportDeadlock' if want_deadlock else 'ExportSchedule'],
                               deadlock=False).replace('SPECIFICATION Spec', 'SPECIFICATION SSpec')
    res = tlc.run_tlc('MCTableS', cfg, workers=1, spec_dir=d, simulate=f'num={n}', depth=700,
                      seed=seed() + 5, timeout=1200, name='table-sched')
    tlc.require_clean(res, 'schedule export')
    chk.add_tlc(res, f'Table behaviours exported as schedules (simulation, sync={sync}, '
                     f'played={played})')
    out, seen = [], set()
    for j in res.json_lines:
        if j.get('done') == (not want_deadlock):
            key = tuple(j['sched'])
            if key not in seen:
                seen.add(key)
                out.append(['main' if p == 0 else f'seat{p - 1}' for p in j['sched'] if p >= 0])
    return out, board, calls


def replay_jobs(chk: Check, n: int, prefix: str) -> List[tuple]:
    jobs = []
    for played in (False, True):
        scheds, board, calls = tlc_schedules(chk, n, played)
        deal, dealer, vul = board
        # the real board has 13 cards per hand: the model's deal is its first trick
        r = rng('replay', played)
        rest = [c for c in range(52) if all(c not in h for h in deal)]
        r.shuffle(rest)
        full = [sorted(list(deal[s]) + rest[12 * s:12 * (s + 1)]) for s in range(4)]
        style = {'auction': 'script', 'script': calls}
        for k, sc in enumerate(scheds):
            cfg = {'boards': [(full, dealer, vul, f'tlc{k}', None)], 'seed': seed() + k,
                   'styles': [dict(style)] * 4, 'vary': False, 'policy_spec': ('script', sc)}
            jobs.append((f'{prefix}{int(played)}.{k}', cfg, 'normal', None))
    return jobs


def systematic_stall_jobs(r, prefix: str, played: bool) -> List[tuple]:
    """One thread stalled from EACH of its scheduling points (found by a base
    run) for as long as any other thread can move: the formal counterpart of
    'however long any one thread is delayed', on a one-board session."""
    boards = rand_boards(r, 1)
    styles = [{'auction': 'weak' if played else 'passout'}] * 4
    base = {'boards': boards, 'seed': r.randrange(1 << 30), 'styles': styles, 'vary': False,
            'policy_spec': ('fifo',)}
    cfg = dict(base)
    cfg['policy'] = lambda rnd: make_policy(('fifo',), rnd)
    cfg['outdir'] = str(tlc.workdir())
    cfg['tag'] = f'{prefix}base'
    cfg['record_blocks'] = False
    res = run_session(cfg)
    jobs = []
    for name, n in sorted(res['npoints'].items()):
        for k in range(0, n + 1):
            c = dict(base)
            c['policy_spec'] = ('stall', name, k, 'fifo')
            jobs.append((f'{prefix}{name}.{k}', c, 'normal', None))
    return jobs


def skeleton_conformance(chk: Check, n: int) -> None:
    """The synchronisation skeleton of real sessions, block by block, against
    Table.tla (TableSkelTrace): one TLC run per session with the session's own
    configuration and full-length decision script.  A rejected skeleton is
    CONFORMANCE-DRIFT (the all-interleavings result of TLC no longer transfers
    to the code), reported as a note - never as a violation by itself."""
    from . import tablemodel
    r = rng('skel')
    accepted, drift, total_events = 0, [], 0
    for k in range(n):
        played = k % 2 == 1
        boards = rand_boards(r, 1 + (k % 3 == 2))
        boards = [(dl, d, v, bid_, None) for (dl, d, v, bid_, dda) in boards]
        styles = [{'auction': 'weak' if played else 'passout'}] * 4
        order = [0, 1, 2, 3]
        r.shuffle(order)
        cfg = {'boards': boards, 'seed': r.randrange(1 << 30), 'styles': styles, 'vary': False,
               'policy_spec': POLICIES[k % len(POLICIES)], 'ordered_arrival': True,
               'requesters': [{'kind': 'client', 'seat': s, 'team': ('ns', 'ew')[s % 2]} for s in order],
               'teams': ('ns', 'ew'), 'record_blocks': True}
        cfg['policy'] = lambda rnd, spec=cfg['policy_spec']: make_policy(spec, rnd)
        cfg['outdir'] = str(tlc.workdir())
        cfg['tag'] = f'skel{k}'
        res = run_session(cfg)
        if res['verdict'] != 'all-done':
            drift.append(f'session {k}: verdict {res["verdict"]}')
            continue
        # decisions per board -> script
        scripts = []
        for b in range(len(boards)):
            calls = [d['value'] for d in res['decisions'] if d['board'] == b + 1 and d['kind'] == 'call']
            cards = [d['value'] for d in res['decisions'] if d['board'] == b + 1 and d['kind'] == 'card']
            scripts.append({'calls': calls, 'cards': cards})
        evs = []
        for (th, op, obj) in res['blocks']:
            if th.startswith('client') or op in ('recv', 'ev.set.done', 'gate', 'recv.eof-spin', 'file.write'):
                continue
            if th == 'main' and op == 'begin':
                continue
            evs.append({'th': 0 if th == 'main' else int(th[4:]) + 1, 'op': op})
        total_events += len(evs)
        rq = [(s, ('ns', 'ew')[s % 2], 18) for s in order]
        d = tablemodel.mc_module('MCSkel', rq, [(dl, de, vu) for (dl, de, vu, _, _) in boards], scripts)
        (d / 'MCSkel.tla').write_text((d / 'MCSkel.tla').read_text()
                                      .replace('EXTENDS Table\n', 'EXTENDS TableSkelTrace\n'))
        f = d / 'trace.ndjson'
        cfgt = tablemodel.table_cfg(13, invs=['NotConsumed'], deadlock=False) \
            .replace('SPECIFICATION Spec', 'SPECIFICATION TSpec') + \
            'CONSTRAINT Track\nPOSTCONDITION Reached\n'

        def validate(events):
            f.write_text('\n'.join(json.dumps(e) for e in events) + '\n')
            o = tlc.run_tlc('MCSkel', cfgt, workers=1, spec_dir=d, env={'TRACE_FILE': str(f)},
                            name='skel-tlc', timeout=1200, dfs_queue=True)
            f.unlink()
            return o
        out = validate(evs)
        if out.violated == 'NotConsumed':
            accepted += 1
            chk.add_tlc(out, f'skeleton of session {k} ({len(evs)} blocks) accepted by Table.tla')
            if k == 0:
                # negative control (the binding is not vacuous): the same trace
                # with one barrier block of the main thread removed, and with two
                # adjacent blocks of different threads swapped at a queue read,
                # must be rejected
                idx = [i for i, e in enumerate(evs) if e['th'] == 0 and e['op'] == 'bar.enter']
                bad1 = evs[:idx[-1]] + evs[idx[-1] + 1:]
                o1 = validate(bad1)
                gets = [i for i, e in enumerate(evs) if e['th'] == 0 and e['op'] == 'q.get' and i > 0]
                o2 = None
                if gets:
                    i = gets[0]
                    # main's first queue read moved before the whole admission
                    bad2 = [evs[i]] + evs[:i] + evs[i + 1:]
                    o2 = validate(bad2)
                ctl = {'removed_block_rejected': o1.violated != 'NotConsumed',
                       'reordered_block_rejected': None if o2 is None else o2.violated != 'NotConsumed'}
                chk.extra['skeleton_negative_control'] = ctl
                if not ctl['removed_block_rejected'] or ctl['reordered_block_rejected'] is False:
                    raise MachineryError(f'TableSkelTrace accepts a corrupted trace: {ctl}')
        else:
            tlc.require_clean(out, 'skeleton trace')
            import re as _re
            m = _re.search(r'<<"REACHED", (\d+), (\d+)>>', out.out)
            at = int(m.group(1)) if m else -1
            drift.append(f'session {k}: skeleton rejected at block {at} of {len(evs)}: '
                         f'{evs[max(0, at - 6):at + 2]}')
    chk.extra['skeleton_conformance'] = {'sessions': n, 'accepted': accepted,
                                         'blocks': total_events, 'drift': drift[:10]}
    chk.traces += accepted
    for dmsg in drift:
        chk.note('CONFORMANCE-DRIFT: ' + dmsg)


def abort_jobs(r, n: int, prefix: str) -> List[tuple]:
    """An offence by one seat at call j / card j of board k of n, or an
    operator interrupt while the main thread is at one of its scheduling
    points inside board k."""
    jobs = []
    kinds = ['illegal-call', 'garbage', 'not-held', 'wrong-name', 'interrupt', 'garbage-card', 'replay']
    for q in range(n):
        nb = 1 + q % 3
        k = 1 + (q // 3) % nb
        boards = rand_boards(r, nb)
        kind = kinds[q % len(kinds)]
        # every other session: the boards before the faulted one include a passed-out board
        po_before = {1} if (k > 1 and q % 2 == 1) else set()
        styles = [{'auction': 'weak', 'passout_boards': set(po_before)} for _ in range(4)]
        cfg: Dict[str, Any] = {'boards': boards, 'seed': r.randrange(1 << 30), 'styles': styles,
                               'vary': q % 2 == 0,
                               'policy_spec': POLICIES[q % len(POLICIES)],
                               # the output path already holds an earlier session's log
                               'stale_output': q % 3 == 1}
        if kind == 'interrupt':
            # main's scheduling points: about 20 for admission, then per board
            # 2 barriers + calls + 13 sleeps + 52 gets; any point after seating
            cfg['interrupt_board'] = k
            cfg['interrupt_frac'] = r.random()
            if q % 14 == 4:
                cfg['interrupt_frac'] = 0.999999      # main's very last waiting point inside the board
            elif q % 14 == 11:
                cfg['interrupt_frac'] = 0.0           # ... and its first
            # the waiting points of the deal (the barriers "ready for deal" / "ready for
            # cards") count as well; with them the first point of board k is the first
            # barrier of its deal - the previous board has just been logged
            cfg['interrupt_in_barriers'] = q % 2 == 0
            if q % 12 == 4:
                # the operator runs the command line: main() with a board file
                cfg['via_main'] = {'format': 'json', 'restart': 0}
                cfg['boards'] = [(dl_, d_, v_, i_ or 'b', dda_) for (dl_, d_, v_, i_, dda_) in boards]
        else:
            seat = r.randrange(4)
            if kind in ('illegal-call', 'garbage', 'wrong-name') and q % 2 == 0:
                phase, index = 'auction', 1
            elif kind == 'illegal-call':
                phase, index = 'auction', 1
            elif kind == 'replay':
                phase, index = 'play', r.choice([2, 3, 5, 13])       # the seat's own first card again
            else:
                phase, index = 'play', r.choice([1, 1, 2, 5, 13])
            fk = 'garbage' if kind == 'garbage-card' else kind
            if phase == 'play' and fk == 'illegal-call':
                fk = 'garbage'
            dealer = boards[k - 1][1]            # 'weak' auctions: dealer declares 1C
            if phase == 'play':
                seat = r.choice([dealer, (dealer + 1) % 4, (dealer + 3) % 4])   # not dummy
            cfg['fault'] = {'board': k, 'seat': seat, 'phase': phase, 'index': index,
                            'kind': fk, 'card': b'2C'}
            if fk == 'not-held':
                # a card that neither the seat nor its partner holds
                hand = set(boards[k - 1][0][seat]) | set(boards[k - 1][0][(seat + 2) % 4])
                c = r.choice([x for x in range(52) if x not in hand])
                cfg['fault']['card'] = ('23456789TJQKA'[c % 13] + 'CDHS'[c // 13]).encode()
        jobs.append((f'{prefix}{q}', cfg, 'abort', k - 1))
    # illegal calls of every kind, made by the seat's own program at the end of a
    # legal auction (board 2; board 1 is passed out and must be in the log)
    scripts = [[0, 36, 37, 35, 37],        # a second redouble of a redoubled bid
               [0, 36, 37, 35, 35, 37],
               [5, 35, 36],                # a double of partner's bid
               [7, 3],                     # an insufficient bid
               [7, 7],                     # the same bid again
               [0, 37],                    # a redouble without a double
               [36],                       # a double before any bid
               [35, 37],
               [0, 36, 36],                # a double of a doubled bid
               [0, 36, 35, 37],            # a redouble by the doubling side
               [0, 35, 35, 36, 35, 36]]    # a double of one's own side's doubled bid
    for j, sc in enumerate(scripts[:n // 12 + 3]):
        boards = rand_boards(r, 2)
        boards = [(dl_, 0, v_, i_, dda_) for (dl_, d_, v_, i_, dda_) in boards]    # dealer North
        styles = [{'script': sc, 'passout_boards': {1}} for _ in range(4)]
        jobs.append((f'{prefix}s{j}', {'boards': boards, 'seed': r.randrange(1 << 30), 'styles': styles,
                                       'vary': j % 2 == 0, 'policy_spec': POLICIES[j % len(POLICIES)],
                                       'stale_output': j % 3 == 0}, 'abort', 1))
    return jobs


def admission_jobs(r, n: int, prefix: str) -> List[tuple]:
    jobs = []
    for q in range(n):
        ns, ew = (rand_id(r).strip() or 'n'), (rand_id(r).strip() or 'e')
        if ns == ew and q % 2:
            ew += 'x'
        if q % 7 == 1:
            # team names outside ASCII (several bytes per character on the wire)
            ns = r.choice(['Équipe Zürich', '東京', 'Ünïcødé']) + ns
            ew = r.choice(['Łódź', 'Ελλάς', 'команда']) + ew
        if q % 7 == 6:
            # characters that mean something to str.format / % / regular expressions
            ns = r.choice(['{Aces}', 'A{{ces', '%s', '{0}', 'a}b{', '(x', '[ab', 'a|b', '\\d+', '$^', '*', '?+'])
            ew = r.choice(['{}', '%d %s', 'E}', '.*', 'x)', 'a\\b', '^$']) + ew
        if q % 7 == 2:
            # team names that contain words of the connection line itself
            ns = r.choice(['Good as Gold', 'x as North using protocol version 18', 'as', ' as ', 'using protocol',
                           'Connecting', 'a as b as c', 'version 17'])
            ew = r.choice(['as West', 'East as', 'seated', 'protocol version 18', 'W as E']) + ew
        if q % 7 == 3:
            ns = ''                    # the empty string is a team name too
        if q % 7 == 5:
            ew = ''
        good = [{'kind': 'client', 'seat': s, 'team': (ns, ew)[s % 2]} for s in range(4)]
        r.shuffle(good)
        seq: List[Dict[str, Any]] = []
        seated: Dict[int, str] = {}
        nbad = r.randrange(0, 5)
        if q % 10 == 9:
            nbad = 26        # a long run of refused requests: every one costs the table manager a second
        for g in good:
            # bad requests that are certain to be refused at this point
            while nbad and (r.random() < 0.6 or (nbad > 5 and seated)):
                nbad -= 1
                kind = r.choice(['version', 'taken', 'team'])
                s = r.randrange(4)
                team = (ns, ew)[s % 2]
                if kind == 'taken' and seated:
                    s = r.choice(sorted(seated))
                    team = seated[s] if r.random() < 0.5 else (rand_id(r).strip() or 'z')
                    ver = 18
                elif kind == 'team' and any(((p + 2) % 4) not in seated for p in seated):
                    p = next(p for p in seated if ((p + 2) % 4) not in seated)
                    s = (p + 2) % 4
                    team = seated[p] + r.choice(['x', ' ', '2'])
                    if seated[p].swapcase() != seated[p] and r.random() < 0.4:
                        team = seated[p].swapcase()          # differs in letter case only
                    ver = 18
                else:
                    ver = r.choice([17, 19, 1, 180])
                    if r.random() < 0.6:
                        # (a wrong version AND a team name of its own: nothing of this
                        # request may be remembered)
                        team = r.choice(['Visitors', 'other', rand_id(r).strip() or 'v'])
                # (the variant in other letter case is built from its parts: the team
                # name itself may contain the words of the line)
                kw1, kw2 = ('connecting', 'AS') if r.random() < 0.3 else ('Connecting', 'as')
                line = f'{kw1} "{team}" {kw2} {["North", "East", "South", "West"][s]} ' \
                       f'using protocol version {ver}'
                seq.append({'kind': 'raw', 'seat': s, 'team': team, 'version': ver, 'line': line,
                            'hangup': r.random() < 0.3})
            seq.append(g)
            seated[g['seat']] = g['team']
        boards = rand_boards(r, 1)
        styles = [{'auction': 'passout' if q % 2 else 'weak'}] * 4
        cfg = {'boards': boards, 'seed': r.randrange(1 << 30), 'styles': styles, 'vary': False,
               'policy_spec': POLICIES[q % len(POLICIES)], 'requesters': seq,
               'ordered_arrival': True, 'teams': (ns, ew)}
        jobs.append((f'{prefix}{q}', cfg, 'admission', None))
    return jobs


# --------------------------------------------------------------------------
# clause ownership
# --------------------------------------------------------------------------
def owners(clause: str, kind: str) -> set:
    own = set()
    body = clause.split(':fail=', 1)[-1]
    for c in body.split(','):
        if c.startswith('complete-'):
            own |= {'C20', 'C09'} if kind == 'admission' else {'C09'}
        if c.startswith('complete-decisions') and kind == 'normal':
            # the session "completed" although an auction or a play was cut short
            # (server and clients share the state machines): wrong log, wrong
            # streams, wrong replicas
            own |= {'C08', 'C10', 'C11'}
        if c.startswith('admission-stream') or c.startswith('admission-seated'):
            own |= {'C10'}
        if c.startswith('clients-complete') or c.startswith('client-stream') or c.startswith('replica-'):
            own |= {'C11'}
        if c.startswith('stream-'):
            own |= {'C10', 'C13'} if kind == 'abort' else {'C10'}
            if c.startswith('stream-no-relay'):
                own |= {'C05'}
        if c.startswith('log-'):
            own |= {'C13'} if kind == 'abort' else {'C08'}
            if c.startswith('log-present') or c.startswith('log-json'):
                own |= {'C09'} if kind != 'abort' else set()
        if c.startswith('offered-'):
            own |= {'C06'}
        if c.startswith('held-hand'):
            own |= {'C05'}
        if c.startswith('abort-'):
            own |= {'C13'}
        if c.startswith('admission-'):
            own |= {'C20'}
    return own or {'C06', 'C08', 'C09', 'C10', 'C11', 'C13', 'C20'}


def run(pid: str, tier: str) -> int:
    chk = Check(pid, tier)
    run_into(chk, pid, tier)
    return chk.finish()


def run_into(chk: Check, pid: str, tier: str) -> None:
    quick = tier == 'quick'
    r = rng('table', pid)
    chk.rule += ('a case is one complete session of the real Server with four real '
                'Clients (or raw requesters) under one schedule; distinct_nontrivial '
                'counts distinct (boards, decisions, schedule policy, fault) with at '
                'least one board played or one request refused')
    chk.assumptions += [
        'the baton: controlled Event/Barrier/Queue/socket/time with the semantics '
        'of spec/PyThreading.tla; put and send are not scheduling points (left movers); '
        'a recv is a scheduling point only when it would block',
        'clients are the bundled Client with seeded policies; what they put on the '
        'wire is varied (letter case, card notation, alert suffix) by a hook on the '
        'client end of the connection',
        'TLC, SANY, Json community module']
    from . import tablemodel
    if pid not in ('C05', 'C06'):
        tablemodel.design(chk, pid, tier)
    if pid == 'C05':
        # "a refused play changes nothing", at the table: the refused card is
        # not passed on to the other seats (whose replicas would take it)
        jobs = [j for j in abort_jobs(r, 60 if quick else 1500, 'a')
                if j[1].get('fault', {}).get('phase') == 'play'][:16 if quick else 400]
        # ... and the hand each client believes it holds, at every decision of
        # sessions with passed-out boards in every position
        more = normal_jobs(r, 12 if quick else 300, 'o', max_boards=4)
        for (_, cfg_, _, _) in more:
            cfg_['offers'] = True
            cfg_['vary'] = False
            cfg_.pop('second', None)
        jobs += more
    elif pid == 'C06':
        # the set the bundled client's replica offers to its playing system, at
        # every decision of sessions with passed-out boards in every position
        jobs = normal_jobs(r, 30 if quick else 600, 'o', max_boards=4)
        for (_, cfg, _, _) in jobs:
            cfg['offers'] = True
            cfg['vary'] = False
            if 'second' in cfg:
                cfg['second']['offers'] = True
    elif pid == 'C09':
        n = 240 if quick else 12000
        jobs = schedule_jobs(r, n, 'k') + normal_jobs(r, 40 if quick else 800, 'n') + \
            replay_jobs(chk, 12 if quick else 400, 't')
        if not quick:
            jobs += systematic_stall_jobs(r, 'yp', False) + systematic_stall_jobs(r, 'yq', True)
        # sessions in which further connection requests are refused on the way
        jobs += admission_jobs(r, 16 if quick else 600, 'q')
        skeleton_conformance(chk, 4 if quick else 60)
    elif pid == 'C13':
        jobs = abort_jobs(r, 150 if quick else 3000, 'a')
    elif pid == 'C20':
        jobs = admission_jobs(r, 100 if quick else 4000, 'q')
    else:
        jobs = normal_jobs(r, 64 if quick else 3000, 'n')
        if pid == 'C10':
            jobs += abort_jobs(r, 24 if quick else 600, 'a')     # nothing refused is passed on
            jobs += admission_jobs(r, 16 if quick else 400, 'q')  # refused requesters get nothing else
        if pid == 'C08':
            jobs += schedule_jobs(r, 24 if quick else 600, 'k')
    events = pmap(run_job, jobs, chunk=2)
    if pid in ('C08', 'C09', 'C10', 'C11'):
        # the same table manager and clients in an interpreter that strips
        # assert statements (-O / PYTHONOPTIMIZE): sessions mean the same there
        from .core import run_optimized
        ojobs = [('O' + t_, c_, k_, n_) for (t_, c_, k_, n_) in normal_jobs(r, 4 if quick else 60, 'n')
                 if 'second' not in c_][:4 if quick else 60]
        oevents = run_optimized('harness.table', 'run_job', ojobs)
        chk.extra['sessions_under_python_O'] = len(ojobs)
        jobs = jobs + ojobs
        events = events + oevents
        # ... and with other hash seeds (sets of cards iterated in other orders)
        for hs in ('1', '4242'):
            hjobs = [(f'H{hs}.' + t_, c_, k_, n_) for (t_, c_, k_, n_) in normal_jobs(r, 3 if quick else 40, 'h')
                     if 'second' not in c_]
            hevents = run_optimized('harness.table', 'run_job', hjobs, flags=(), env={'PYTHONHASHSEED': hs})
            jobs = jobs + hjobs
            events = events + hevents
            chk.extra['sessions_under_hash_seed_' + hs] = len(hjobs)
    extra_events = [e.pop('second_event') for e in events if 'second_event' in e]
    for (tid, cfg, kind, comp), e in zip(jobs, events):
        chk.evaluations += 1
        nontrivial = any(d['cards'] for d in e['decs']) or kind != 'normal'
        if nontrivial:
            chk.distinct.add(hash(json.dumps([e['boards'], e['decs'], e['info']['policy'],
                                              cfg.get('fault') and str(cfg['fault']),
                                              e.get('requests')], sort_keys=True, default=str)))
        if not e['done']['paired_ok'] and kind == 'normal':
            chk.note(f'session {tid}: a decision was taken but never sent')
    events = events + extra_events
    chk.extra['two_table_sessions'] = len(extra_events)
    verd: Dict[str, int] = {}
    for e in events:
        verd[e['done']['verdict']] = verd.get(e['done']['verdict'], 0) + 1
    chk.extra['verdicts'] = verd
    chk.extra['sessions'] = len(events)
    chk.extra['blocks_total'] = sum(e['info']['nblocks'] for e in events)
    s0 = events[0]
    chk.sample({'tid': s0['tid'], 'kind': s0['kind'], 'policy': s0['info']['policy'],
                'boards': [b['id'] for b in s0['boards']],
                'calls_board1': [(c['seat'], c['call'], c['sent']) for c in s0['decs'][0]['calls']],
                'first_lines_to_North': s0['s2c'][0][:6], 'verdict': s0['done']['verdict'],
                'blocks': s0['info']['nblocks']})
    rejects = validate_traces(chk, 'TableTrace', events,
                              'real table-manager sessions vs TableObs', heap='4g',
                              shards=NCPU)
    mine = [x for x in rejects if pid in owners(x.clause, x.event['kind'])]
    others = [x for x in rejects if pid not in owners(x.clause, x.event['kind'])]
    if others:
        chk.note(f'{len(others)} rejected sessions concern other table properties only; '
                 f'they are reported by those checks')

    def key_of(x):
        c = x.clause
        # stable identification: clause names without stream positions
        import re
        c = re.sub(r'@\d+', '', c)
        return f'table:{c}'[:200]
    for x in mine:
        ev = dict(x.event)
        chk.violation(key_of(x),
                      f'session {x.tid} rejected, clause "{x.clause}"; verdict '
                      f'{ev["done"]["verdict"]}, blocked {ev["info"]["blocked"]}, main '
                      f'{ev["info"]["main_exc"]}, clients {ev["info"]["client_exc"]}',
                      {'kind': 'rejected-session', 'clause': x.clause, 'event': ev})
