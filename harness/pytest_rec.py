"""A pytest plugin (loaded with  -p harness.pytest_rec ) that records what the
repository's OWN tests do with BiddingPhase and the scoring functions as trace
events, without touching the tests or the library: the classes / functions
are wrapped from outside at configure time.  The events are written to
$VERIF_REC_FILE (ndjson) and validated by AuctionTrace / ScoreTrace: every
invariant of the specification is evaluated at every step the tests take,
however weak their own assertions are."""
from __future__ import annotations

import json
import os
from typing import Any, Dict, List

EVENTS: List[Dict[str, Any]] = []
_counter = [0]


def _wrap_bidding():
    from bridge_env import bidding_phase as bpm
    from . import auction
    BP = bpm.BiddingPhase
    orig_init, orig_take = BP.__init__, BP.take_bid

    def init(self, *a, **k):
        orig_init(self, *a, **k)
        _counter[0] += 1
        self._verif_tid = f'T{_counter[0]}'
        e = {'tid': self._verif_tid, 'src': 'auction', 'ev': 'new',
             'dealer': self.dealer.value - 1, 'vul': self.vul.value - 1, 'res': 'new'}
        e.update(auction.project(self))
        EVENTS.append(e)

    def take_bid(self, bid):
        before = auction.project(self)
        try:
            r = orig_take(self, bid)
        except Exception:
            after = auction.project(self)
            e = {'tid': self._verif_tid, 'src': 'auction', 'ev': 'take', 'call': bid.idx,
                 'res': 'raises'}
            e.update({'same': True} if after == before else after)
            EVENTS.append(e)
            raise
        res = {bpm.BiddingPhaseState.ILLEGAL: 'illegal', bpm.BiddingPhaseState.ONGOING: 'ongoing',
               bpm.BiddingPhaseState.FINISHED: 'finished'}.get(r, f'unknown:{r!r}')
        after = auction.project(self)
        e = {'tid': self._verif_tid, 'src': 'auction', 'ev': 'take', 'call': bid.idx, 'res': res}
        if res == 'illegal' and after == before:
            e['same'] = True
        else:
            e.update(after)
        EVENTS.append(e)
        return r
    BP.__init__ = init
    BP.take_bid = take_bid


def _wrap_score():
    from bridge_env import score as sm
    from bridge_env import Bid
    o_cs, o_cbs, o_pd, o_s2 = sm.calc_score, sm.calc_bid_score, sm.point_difference_to_imps, sm.score_to_imp

    def rec(e, fn, *a):
        _counter[0] += 1
        e['tid'] = f'S{_counter[0]}'
        e['src'] = 'score'
        try:
            r = fn(*a)
        except Exception:
            e.update({'raised': True, 'res': 0})
            EVENTS.append(e)
            raise
        ok = isinstance(r, int) and not isinstance(r, bool) and abs(r) < 2 ** 31
        e.update({'raised': not ok, 'res': r if ok else 0})
        EVENTS.append(e)
        return r

    def calc_score(contract, taken_tricks):
        fb = contract.final_bid
        po = contract.is_passed_out()
        e = {'ev': 'score', 'bid': 38 if po else fb.idx, 'x': bool(contract.x) and not po,
             'xx': bool(contract.xx) and not po, 'vul': contract.vul.value - 1,
             'decl': 4 if contract.declarer is None else contract.declarer.value - 1,
             'tricks': taken_tricks if isinstance(taken_tricks, int) else 0}
        if not po and contract.declarer is None:
            # a contract without a declarer: only scorable when the board
            # vulnerability makes the side irrelevant - leave it unrecorded
            return o_cs(contract, taken_tricks)
        return rec(e, o_cs, contract, taken_tricks)

    def calc_bid_score(bid, x, xx, vul, taken_trick_num):
        if bid in (Bid.Pass, Bid.X, Bid.XX):
            return o_cbs(bid, x, xx, vul, taken_trick_num)
        e = {'ev': 'bidscore', 'bid': bid.idx, 'x': bool(x), 'xx': bool(xx), 'vulflag': bool(vul),
             'tricks': taken_trick_num}
        return rec(e, o_cbs, bid, x, xx, vul, taken_trick_num)

    def pdiff(d):
        if not isinstance(d, int) or abs(d) >= 2 ** 31:
            return o_pd(d)
        return rec({'ev': 'imp', 'd': d}, o_pd, d)

    def s2(a, b):
        if not (isinstance(a, int) and isinstance(b, int)) or abs(a) + abs(b) >= 2 ** 31:
            return o_s2(a, b)
        return rec({'ev': 'imp2', 'a': a, 'b': b}, o_s2, a, b)
    sm.calc_score, sm.calc_bid_score = calc_score, calc_bid_score
    sm.point_difference_to_imps, sm.score_to_imp = pdiff, s2


def pytest_configure(config):
    _wrap_bidding()
    _wrap_score()


def pytest_sessionfinish(session, exitstatus):
    path = os.environ.get('VERIF_REC_FILE')
    if path:
        with open(path, 'w') as fw:
            for e in EVENTS:
                fw.write(json.dumps(e))
                fw.write('\n')
