"""C04, C05, C06, C11 (in process): the play of the cards against Play.tla /
PlayLaw.tla."""
from __future__ import annotations

import copy
import itertools
import json
from pathlib import Path
from typing import Any, Dict, List, Optional, Sequence, Tuple

from . import tlc
from .core import (Check, MachineryError, NCPU, design_check, pmap,
                   report_rejects, rng, seed, validate_traces)

NOSEAT, NOCARD, NT = 4, 52, 4


def _imports():
    from bridge_env import (Bid, Card, Contract, Hands, ObservedPlayingPhase,
                            Pair, Player, PlayingPhase, PlayingPhaseWithHands,
                            Suit, Vul)
    return (Bid, Card, Contract, Hands, ObservedPlayingPhase, Pair, Player,
            PlayingPhase, PlayingPhaseWithHands, Suit, Vul)


def card(n: int):
    Card = _imports()[1]
    Suit = _imports()[9]
    return Card(n % 13 + 2, Suit(n // 13 + 1))


def cnum(c) -> int:
    return (c.suit.value - 1) * 13 + c.rank - 2


def cards_sorted(cs) -> List[int]:
    return sorted(cnum(c) for c in cs)


def make_contract(trump: int, decl: int, level: int = 1):
    (Bid, Card, Contract, Hands, Obs, Pair, Player, PP, PPH, Suit,
     Vul) = _imports()
    return Contract(Bid.int_to_bid((level - 1) * 5 + trump), x=False, xx=False,
                    vul=Vul.NONE, declarer=Player(decl + 1))


def make_hands(deal: Sequence[Sequence[int]]):
    Hands = _imports()[3]
    return Hands(north_hand={card(c) for c in deal[0]},
                 east_hand={card(c) for c in deal[1]},
                 south_hand={card(c) for c in deal[2]},
                 west_hand={card(c) for c in deal[3]})


# --------------------------------------------------------------------------
# projection
# --------------------------------------------------------------------------
def project(obj, mode: str) -> Dict[str, Any]:
    (Bid, Card, Contract, Hands, Obs, Pair, Player, PP, PPH, Suit,
     Vul) = _imports()
    try:
        hist = [{'leader': th.leader.value - 1,
                 'cards': [cnum(c) for c in th.cards]}
                for th in obj.playing_history.history]
    except Exception as e:  # noqa
        hist = [{'error': repr(e)}]
    p: Dict[str, Any] = {
        'decl': obj.declarer.value - 1,
        'dummy': obj.dummy.value - 1,
        'trump': obj.trump.value - 1,
        'leader': obj.leader.value - 1,
        'active': obj.active_player.value - 1,
        'tricknum': obj.trick_num,
        'taken': [obj.taken_tricks[Pair.NS], obj.taken_tricks[Pair.EW]],
        'used': cards_sorted(obj.used_cards),
        'hist': hist,
        'done': bool(obj.has_done()),
    }
    if mode == 'hands':
        p['hands'] = [cards_sorted(obj.hands[pl]) for pl in Player]
    elif mode == 'obs':
        p['own'] = cards_sorted(obj.hand)
        dh = obj.dummy_hand
        p['dumset'] = dh is not None
        p['dum'] = cards_sorted(dh) if dh is not None else []
    return p


class Obj:
    """One real playing-phase object plus its mode."""

    def __init__(self, o: int, mode: str, me: int, deal, trump: int, decl: int,
                 redeal: bool = False, pbn: bool = False, lists: bool = False):
        (Bid, Card, Contract, Hands, Obs, Pair, Player, PP, PPH, Suit,
         Vul) = _imports()
        self.o, self.mode, self.me = o, mode, me
        self.caller = None
        self.orig = [sorted(h) for h in deal] if mode == 'hands' else sorted(deal[me]) if mode == 'obs' else None
        contract = make_contract(trump, decl, 1 + (o + trump + decl) % 7)
        if mode == 'plain':
            self.obj = PP(contract)
        elif mode == 'hands' and pbn:
            # the deal arrives as PBN text (a board file) that was read before in
            # this process - for the other table of the match, where the opening
            # lead has already been made on the object read then
            text = make_hands(deal).to_pbn()
            first = Hands.convert_pbn(text)
            other_table = PPH(contract, first)
            lead = sorted(deal[(decl + 1) % 4])[0]
            other_table.play_card_by_player(card(lead), Player((decl + 1) % 4 + 1))
            h = Hands.convert_pbn(text)
            self.caller = h
            self.obj = PPH(contract, h)
        elif mode == 'hands' and redeal:
            # a Hands object that is re-dealt: made for another deal, its four
            # public seat attributes assigned afterwards
            other = [sorted(deal[(k + 1) % 4]) for k in range(4)]
            h = make_hands(other)
            h.north, h.east, h.south, h.west = [{card(c) for c in deal[k]} for k in range(4)]
            self.caller = h
            self.obj = PPH(contract, h)
        elif mode == 'hands' and lists:
            # the four hands handed over as lists of cards (what a shuffle-and-slice
            # dealer has at hand) instead of sets
            self.caller = Hands(north_hand=[card(c) for c in deal[0]], east_hand=[card(c) for c in deal[1]],
                                south_hand=[card(c) for c in deal[2]], west_hand=[card(c) for c in deal[3]])
            self.obj = PPH(contract, self.caller)
        elif mode == 'hands':
            self.caller = make_hands(deal)
            self.obj = PPH(contract, self.caller)
        else:
            self.caller = {card(c) for c in deal[me]}
            self.obj = Obs(contract, Player(me + 1), self.caller)

    def proj(self):
        return project(self.obj, self.mode)

    def caller_state(self, p) -> Optional[str]:
        """The Hands object / hand set the CALLER handed over: an implementation
        may play on it (it then tracks the remaining hands) or on a copy of its
        own (it then stays the original deal) - but not one and then the other."""
        if self.caller is None:
            return None
        try:
            if self.mode == 'hands':
                Player = _imports()[6]
                now = [cards_sorted(self.caller[pl]) for pl in Player]
                return 'tracks' if now == p['hands'] else 'original' if now == self.orig else 'neither'
            if self.mode == 'obs':
                now = cards_sorted(self.caller)
                return 'tracks' if now == p['own'] else 'original' if now == self.orig else 'neither'
        except Exception:  # noqa
            return 'neither'
        return None


def ev_new(tid, ob: Obj, deal, trump, decl) -> Dict[str, Any]:
    e = {'tid': tid, 'ev': 'new', 'o': ob.o, 'mode': ob.mode, 'me': ob.me,
         'deal': [sorted(h) for h in deal], 'trump': trump, 'decl': decl,
         'res': 'ok'}
    e.update(ob.proj())
    return e


def ev_play(tid, ob: Obj, seat: int, c: int, via: str = 'by_player',
            fork: str = '') -> Dict[str, Any]:
    """fork ('deepcopy' | 'pickle'): the play is made on a copy of the object
    (a rollout, a search, a checkpoint); the object itself must not notice."""
    Player = _imports()[6]
    before = ob.proj()
    why = ''
    target = ob.obj
    if fork:
        import copy
        import pickle
        try:
            target = copy.deepcopy(ob.obj) if fork == 'deepcopy' else pickle.loads(pickle.dumps(ob.obj))
        except Exception as ex:  # noqa
            return {'tid': tid, 'ev': 'play', 'o': ob.o, 'seat': seat, 'card': c, 'via': via,
                    'res': f'copy-failed:{type(ex).__name__}', 'fork': True, 'same': True}
    try:
        if via == 'raw':
            target.play_card(card(c))
        elif via == 'int':
            # the bare index (an agent's action id) instead of the Card object
            target.play_card_by_player(int(card(c)), Player(seat + 1))
        else:
            target.play_card_by_player(card(c), Player(seat + 1))
        res = 'ok'
    except Exception as ex:  # noqa
        res = 'raises'
        why = f'{type(ex).__name__}: {ex}'[:80]
    after = project(target, ob.mode)
    e: Dict[str, Any] = {'tid': tid, 'ev': 'play', 'o': ob.o, 'seat': seat,
                         'card': c, 'via': via, 'res': res}
    if fork:
        e['fork'] = True
        now = ob.proj()
        if now != before:
            e['res'] = 'fork-changed-original'
            e['changed'] = sorted(k_ for k_ in now if now[k_] != before.get(k_))
    if res == 'raises' and after == before:
        e['same'] = True
        e['msg'] = why
    else:
        e.update(after)
        cs = ob.caller_state(after) if not fork else None
        if cs is not None:
            e['caller'] = cs
    return e


def ev_setdummy(tid, ob: Obj, hand: Sequence[int], same_object: bool = False) -> Dict[str, Any]:
    cur = ob.obj.dummy_hand if same_object else None
    ob.obj.set_dummy_hand(cur if cur is not None else {card(c) for c in hand})
    e = {'tid': tid, 'ev': 'setdummy', 'o': ob.o, 'hand': sorted(hand),
         'res': 'ok'}
    e.update(ob.proj())
    return e


def ev_avail(tid, ob: Optional[Obj], kind: str, *, hand=None, seat=None,
             led=None) -> Dict[str, Any]:
    (Bid, Card, Contract, Hands, Obs, Pair, Player, PP, PPH, Suit,
     Vul) = _imports()
    e: Dict[str, Any] = {'tid': tid, 'ev': 'avail', 'kind': kind,
                         'o': ob.o if ob else 0}
    try:
        if kind == 'static':
            e['hand'] = sorted(hand)
            e['led'] = NOCARD if led is None else led
            out = PP.available_cards({card(c) for c in hand},
                                     None if led is None else card(led))
        elif kind == 'cur':
            e['hand'] = sorted(hand)
            out = ob.obj.current_available_cards({card(c) for c in hand})
        elif kind == 'hand':
            e['seat'] = seat
            out = ob.obj.current_available_cards_in_hand(Player(seat + 1))
        elif kind == 'own':
            out = ob.obj.current_available_cards_in_hand()
        else:
            out = ob.obj.current_available_cards_in_dummy_hand()
        e['res'] = 'ok'
        e['out'] = cards_sorted(out)
    except Exception:  # noqa
        e['res'] = 'raises'
        e['out'] = []
    return e


def ev_choose(tid, ob: Obj, hand: Sequence[int], r, system=None) -> Dict[str, Any]:
    import random as _random
    from bridge_env.network_bridge.playing_system import RandomPlay
    e: Dict[str, Any] = {'tid': tid, 'ev': 'choose', 'o': ob.o,
                         'hand': sorted(hand)}
    st = _random.getstate()
    _random.seed(r.randrange(1 << 30))
    try:
        out = (system or RandomPlay()).play({card(c) for c in hand}, ob.obj)
        e['res'] = 'ok'
        e['out'] = cnum(out)
    except Exception:  # noqa
        e['res'] = 'raises'
        e['out'] = NOCARD
    finally:
        _random.setstate(st)
    return e


# --------------------------------------------------------------------------
# drivers
# --------------------------------------------------------------------------
def random_deal(r) -> List[List[int]]:
    pack = list(range(52))
    r.shuffle(pack)
    return [sorted(pack[13 * k:13 * (k + 1)]) for k in range(4)]


def shaped_deal(r) -> List[List[int]]:
    """Deals with voids and long suits: suits are dealt in blocks."""
    pack = list(range(52))
    # rotate so that whole suits tend to fall into one hand
    k = r.randrange(52)
    pack = pack[k:] + pack[:k]
    swaps = r.randrange(0, 12)
    for _ in range(swaps):
        a, b = r.randrange(52), r.randrange(52)
        pack[a], pack[b] = pack[b], pack[a]
    return [sorted(pack[13 * k:13 * (k + 1)]) for k in range(4)]


def board_trace(job) -> List[Dict[str, Any]]:
    """One board driven through the manager (o=0, hands), a plain
    PlayingPhase (o=1) and the four observers (o=2..5)."""
    (tid, deal, trump, decl, plays, style, sd, inject, observers) = job
    # the command lines of server and client switch DEBUG logging on: every 5th
    # board is played with the root logger at DEBUG (records formatted into a sink)
    if (sum(map(ord, str(tid))) + trump) % 5 == 2:
        from .baton import log_debug_off, log_debug_on
        state = log_debug_on()
        try:
            return _board_trace(job)
        finally:
            log_debug_off(state)
    return _board_trace(job)


def _board_trace(job) -> List[Dict[str, Any]]:
    (tid, deal, trump, decl, plays, style, sd, inject, observers) = job
    r = rng('board', sd, tid)
    evs: List[Dict[str, Any]] = []
    man = Obj(0, 'hands', NOSEAT, deal, trump, decl,
              redeal=(sum(map(ord, tid)) + trump + decl) % 4 == 0,
              pbn=(sum(map(ord, tid)) + trump + decl) % 4 == 2 and all(len(h) == 13 for h in deal),
              lists=(sum(map(ord, tid)) + trump + decl) % 8 == 3)
    evs.append(ev_new(tid, man, deal, trump, decl))
    plain = Obj(1, 'plain', NOSEAT, deal, trump, decl)
    evs.append(ev_new(tid, plain, deal, trump, decl))
    obs: List[Obj] = []
    if observers:
        for s in range(4):
            ob = Obj(2 + s, 'obs', s, deal, trump, decl)
            evs.append(ev_new(tid, ob, deal, trump, decl))
            obs.append(ob)
    hands = [set(h) for h in deal]
    used: List[int] = []
    trick: List[int] = []
    trick_seats: List[int] = []          # who played the cards of the open trick
    dummy = (decl + 2) % 4
    n_total = sum(len(h) for h in deal)
    k = 0
    # the board may be carried on by copies of the objects (a checkpoint that is
    # restored, objects sent to another process): every 3rd board continues on
    # deep copies or pickle round trips from some point on
    hsum = sum(map(ord, str(tid))) + trump + 2 * decl
    swap_at = (hsum // 3) % max(1, n_total) if hsum % 3 == 0 else -1
    while k < n_total:
        if k == swap_at:
            import copy
            import pickle
            for o_ in [man, plain] + obs:
                o_.caller = None      # the copy has no caller-side object
                try:
                    o_.obj = copy.deepcopy(o_.obj) if hsum % 2 else pickle.loads(pickle.dumps(o_.obj))
                except Exception:  # noqa
                    evs.append({'tid': tid, 'ev': 'play', 'o': o_.o, 'seat': 0, 'card': 0,
                                'via': 'by_player', 'res': 'copy-failed', 'same': True})
        mp = man.proj()
        active = mp['active']
        if not hands[active]:
            break
        led = trick[0] if trick else None
        follow = [c for c in hands[active] if led is not None and c // 13 == led // 13]
        legal = sorted(follow) if follow else sorted(hands[active])
        # ---- queries (C06) ----
        if inject:
            evs.append(ev_avail(tid, man, 'hand', seat=active))
            if r.random() < 0.3:
                evs.append(ev_avail(tid, man, 'hand', seat=r.randrange(4)))
            evs.append(ev_avail(tid, plain, 'cur', hand=sorted(hands[active])))
            if r.random() < 0.5:
                evs.append(ev_choose(tid, plain, sorted(hands[active]), r))
            if r.random() < 0.3:
                evs.append(ev_choose(tid, man, sorted(hands[active]), r))
            if obs:
                o = obs[r.randrange(4)]
                evs.append(ev_avail(tid, o, 'own'))
                evs.append(ev_avail(tid, o, 'dummy'))
                if r.random() < 0.3 and hands[o.me]:
                    evs.append(ev_choose(tid, o, sorted(hands[o.me]), r))
        # ---- a play on a copy of the object (rollout / checkpoint) ----
        if inject and r.random() < 0.25:
            how = 'deepcopy' if r.random() < 0.6 else 'pickle'
            evs.append(ev_play(tid, man, active, r.choice(legal), fork=how))
            if r.random() < 0.5:
                evs.append(ev_play(tid, plain, active, r.choice(legal), fork=how))
            if obs:
                o = obs[r.randrange(4)]
                ok_card = r.choice(legal)
                if active not in (o.me, dummy) or ok_card in hands[active]:
                    evs.append(ev_play(tid, o, active, ok_card, fork=how))
                    # what the object itself offers afterwards is still the playable
                    # set of the hands it held before the copy was played on
                    evs.append(ev_avail(tid, o, 'own'))
                    evs.append(ev_avail(tid, o, 'dummy'))
            evs.append(ev_avail(tid, man, 'hand', seat=active))
        # ---- refused plays (C05) ----
        if inject:
            others = [s for s in range(4) if s != active]
            s2 = r.choice(others)
            if hands[s2]:                      # out of turn, card held
                evs.append(ev_play(tid, man, s2, r.choice(sorted(hands[s2]))))
            s3 = r.choice(others)
            if hands[s3]:                      # on turn, card of another seat
                evs.append(ev_play(tid, man, active, r.choice(sorted(hands[s3]))))
            if used:                           # on turn, card already played
                evs.append(ev_play(tid, man, active, r.choice(used)))
            if r.random() < 0.4:               # plain object: out of turn
                evs.append(ev_play(tid, plain, s2, r.choice(legal)))
            if r.random() < 0.2:
                # the index of a held, playable card instead of the card itself
                evs.append(ev_play(tid, man, active, r.choice(legal), via='int'))
                if obs:
                    o_ = obs[active]
                    evs.append(ev_play(tid, o_, active, r.choice(legal), via='int'))
            if active == dummy and obs and hands[dummy] and r.random() < 0.5:
                # on dummy's turn a play attributed to DECLARER (who calls dummy's
                # cards, but it is dummy's play): refused, whatever the card
                c_d = r.choice(sorted(hands[dummy]) + sorted(hands[decl]))
                evs.append(ev_play(tid, man, decl, c_d))
                for o in obs:
                    evs.append(ev_play(tid, o, decl, c_d))
            if trick and r.random() < 0.5:
                # an echo: a card of the open trick offered again by the seat that played it
                j_ = r.randrange(len(trick))
                evs.append(ev_play(tid, man, trick_seats[j_], trick[j_]))
                for o in obs:
                    if o.me == trick_seats[j_] or (trick_seats[j_] == dummy and o.me != dummy and used):
                        evs.append(ev_play(tid, o, trick_seats[j_], trick[j_]))
            if obs:
                o = obs[r.randrange(4)]
                # the observer itself out of turn / with a card it lacks
                if o.me != active and hands[o.me]:
                    evs.append(ev_play(tid, o, o.me, r.choice(sorted(hands[o.me]))))
                if o.me == active and hands[s3]:
                    evs.append(ev_play(tid, o, active, r.choice(sorted(hands[s3]))))
                if active == dummy and o.me != dummy and hands[s3] and s3 != dummy:
                    evs.append(ev_play(tid, o, dummy, r.choice(sorted(hands[s3]))))
                if r.random() < 0.3 and used and (
                        active == o.me or (active == dummy and o.me != dummy)):
                    # a card already played, by a seat whose hand the
                    # observer knows (before the opening lead: dummy not set)
                    evs.append(ev_play(tid, o, active, r.choice(used)))
                # a refused play must not influence what is offered afterwards
                evs.append(ev_avail(tid, o, 'own'))
                evs.append(ev_avail(tid, o, 'dummy'))
                evs.append(ev_avail(tid, man, 'hand', seat=active))
        # ---- the play ----
        if plays is not None:
            c = plays[k]
        elif style == 'legal':
            c = r.choice(legal)
        elif style == 'revoke':
            c = r.choice(sorted(hands[active]))
        elif style == 'high':
            c = max(legal) if r.random() < 0.7 else r.choice(legal)
        else:   # 'mixed'
            c = r.choice(sorted(hands[active])) if r.random() < 0.15 else r.choice(legal)
        e = ev_play(tid, man, active, c)
        evs.append(e)
        if e['res'] != 'ok':
            break           # the manager refused a play the driver believes legal
        evs.append(ev_play(tid, plain, active, c,
                           via='raw' if r.random() < 0.3 else 'by_player'))
        for o in obs:
            evs.append(ev_play(tid, o, active, c))
        hands[active].discard(c)
        used.append(c)
        trick.append(c)
        trick_seats.append(active)
        if len(trick) == 4:
            trick = []
            trick_seats = []
        if k == 0:
            if hsum % 5 == 2 and hands[dummy]:
                # dummy's cards arrive late: a play for dummy before they are shown
                # is refused (and changes nothing); then they are shown
                for o in obs:
                    if o.me != dummy:
                        evs.append(ev_play(tid, o, dummy, sorted(hands[dummy])[0]))
            for o in obs:
                # the observer in dummy's seat is shown "dummy's cards" too in every
                # 3rd board (a table manager that tells everybody; the bundled
                # client skips the message for this seat)
                if o.me != dummy or hsum % 3 == 1:
                    evs.append(ev_setdummy(tid, o, sorted(hands[dummy])))
                    if hsum % 4 == 1:
                        # dummy is announced a second time, with the very set the object
                        # already holds (a repeated "Dummy's cards"): nothing changes
                        evs.append(ev_setdummy(tid, o, sorted(hands[dummy]), same_object=True))
        if obs:
            evs.append({'tid': tid, 'ev': 'agree', 'o': 0})
        k += 1
    if inject and man.proj()['done']:
        # after the end: every further play is refused (no cards left)
        for s in range(4):
            evs.append(ev_play(tid, man, s, r.randrange(52)))
        act = man.proj()['active']
        for o in obs:
            # the seat on turn, when it is a seat whose (empty) hand the
            # observer knows, cannot play a 53rd card either
            if act == o.me or (act == dummy and o.me != dummy):
                evs.append(ev_play(tid, o, act, r.choice(used)))
                evs.append(ev_play(tid, o, act, r.randrange(52)))
    return evs


def trick_events(job) -> List[Dict[str, Any]]:
    """Winner table: every given 4-tuple x trump on a fresh PlayingPhase."""
    tid0, tuples, trumps, decl = job
    out = []
    for k, t in enumerate(tuples):
        # every trump on the same four cards in one process, in a rotating
        # order (state kept between tricks / boards must not matter)
        for j in range(len(trumps)):
            trump = trumps[(j + k) % len(trumps)]
            ob = Obj(1, 'plain', NOSEAT, [[], [], [], []], trump, (decl + j) % 4)
            ok = True
            for c in t:
                p = ob.proj()
                e = ev_play('x', ob, p['active'], c)
                ok = ok and e['res'] == 'ok'
            e = {'tid': f'{tid0}.{k}.{trump}', 'ev': 'trick', 'o': 1, 'trump': trump,
                 'decl': (decl + j) % 4, 'cards': list(t), 'res': 'ok' if ok else 'raises'}
            e.update(ob.proj())
            out.append(e)
    return out


def avail_events(job) -> List[Dict[str, Any]]:
    # every 3rd chunk with DEBUG logging switched on (as the command lines do)
    if sum(map(ord, str(job[0]))) % 3 == 0:
        from .baton import log_debug_off, log_debug_on
        state = log_debug_on()
        try:
            return _avail_events(job)
        finally:
            log_debug_off(state)
    return _avail_events(job)


def _avail_events(job) -> List[Dict[str, Any]]:
    tid0, hands, leds = job
    out = []
    k = 0
    for h in hands:
        for l in leds:
            out.append(ev_avail(f'{tid0}.{k}', None, 'static', hand=h, led=l))
            k += 1
    return out


# --------------------------------------------------------------------------
# TLC side
# --------------------------------------------------------------------------
INVS = {
    'C04': ['TypeOK', 'OpeningIsLaw', 'TurnIsLaw', 'LeaderIsLaw', 'TakenIsLaw',
            'HistoryIsLaw', 'CountsAddUp'],
    'C05': ['TypeOK', 'HandsAreLaw', 'Conservation'],
    'C06': ['TypeOK', 'PlayableIsLaw'],
    'C11': ['TypeOK', 'ReplicasAgree', 'ReplicasAccept', 'ReplicaHands'],
}
PROPS = {
    'C04': ['OneCreditPerTrick'],
    'C05': ['AcceptedIffLaw', 'RefusedUnchanged'],
    'C06': [],
    'C11': [],
}


def deal_literal(deal) -> str:
    return '<<' + ', '.join(tlc.tla_set(sorted(h)) for h in deal) + '>>'


def mc_module(name: str, body: str) -> Path:
    d = tlc.fresh('mc')
    d.mkdir(parents=True)
    (d / f'{name}.tla').write_text(
        f'---- MODULE {name} ----\nEXTENDS Play\n'
        'SeqDeal(q) == [s \\in Seats |-> q[s + 1]]\n' + body + '\n====\n')
    return d


def play_cfg(trumps, decls, revokes: bool, invs=(), props=(), spec='Spec') -> str:
    return tlc.cfg_text(specification=spec,
                        constants={'Deals': '<- MCDeals',
                                   'Trumps': tlc.tla_set(trumps),
                                   'Decls': tlc.tla_set(decls),
                                   'Revokes': 'TRUE' if revokes else 'FALSE'},
                        invariants=invs, properties=props).replace(
        'Deals = <- MCDeals', 'Deals <- MCDeals')


def small_deals(pack: Sequence[int], k: int, r, n: Optional[int]) -> List[List[List[int]]]:
    """Deals of a reduced pack, k cards per hand (all of them, or n sampled)."""
    pack = list(pack)
    out = []
    if n is None:
        def rec(rest, hands):
            if len(hands) == 4:
                out.append([sorted(h) for h in hands])
                return
            for h in itertools.combinations(rest, k):
                rec([c for c in rest if c not in h], hands + [h])
        rec(pack, [])
        return out
    seen = set()
    while len(out) < n:
        p = pack[:]
        r.shuffle(p)
        d = [sorted(p[k * j:k * (j + 1)]) for j in range(4)]
        key = json.dumps(d)
        if key not in seen:
            seen.add(key)
            out.append(d)
    return out


def design(chk: Check, pid: str, deals, trumps, decls, revokes, what, workers=8):
    body = 'MCDeals == {' + ', '.join(f'SeqDeal({deal_literal(d)})' for d in deals) + '}'
    d = mc_module('MCPlay', body)
    design_check(chk, 'MCPlay',
                 play_cfg(trumps, decls, revokes, INVS[pid], PROPS[pid]),
                 what, constants=f'{len(deals)} deals x trumps {list(trumps)} x '
                                 f'declarers {list(decls)}, revokes={revokes}',
                 workers=workers, timeout=3000, spec_dir=d)


def export_behaviours(chk: Check, deals, trumps, decls, revokes, what, *,
                      simulate: Optional[int] = None, depth: int = 60,
                      sd: int = 0) -> List[Dict[str, Any]]:
    body = 'MCDeals == {' + ', '.join(f'SeqDeal({deal_literal(d)})' for d in deals) + '}'
    d = mc_module('MCPlay', body)
    cfg = play_cfg(trumps, decls, revokes, ['ExportAtEnd'])
    kw: Dict[str, Any] = {}
    if simulate is not None:
        kw = dict(simulate=f'num={simulate}', depth=depth, seed=sd)
    res = tlc.run_tlc('MCPlay', cfg, workers=1, spec_dir=d, name='play-export',
                      timeout=3000, **kw)
    tlc.require_clean(res, what)
    if res.violated:
        raise MachineryError(f'{what}: {res.error_text[:2000]}')
    chk.add_tlc(res, what, f'{len(deals)} deals, simulate={simulate}')
    out = []
    for j in res.json_lines:
        dl = j['deal']
        if isinstance(dl, dict):         # function over 0..3 -> JSON object
            dl = [dl[str(s)] for s in range(4)]
        out.append({'deal': dl, 'trump': j['trump'], 'decl': j['decl'],
                    'plays': j['plays']})
    return out


PACK8 = [0, 1, 13, 14, 26, 27, 39, 40]            # 4 suits x 2 ranks
PACK8B = [0, 3, 7, 12, 13, 16, 20, 25]            # 2 suits x 4 ranks
PACK12 = [0, 5, 12, 13, 18, 25, 26, 31, 38, 39, 44, 51]   # 4 suits x 3 ranks
PACK16 = [s * 13 + x for s in range(4) for x in (0, 4, 8, 12)]  # 4 x 4


def owners(clause: str, event: Optional[Dict[str, Any]] = None) -> set:
    """Which properties a reject clause speaks about."""
    parts = dict(kv.split('=', 1) for kv in clause.split(':') if '=' in kv)
    ev = clause.split(':', 1)[0]
    fails = set(parts.get('fail', '').split(','))
    own = set()
    mode = parts.get('o', '')
    if event is not None and event.get('res') == 'fork-changed-original':
        # a play on a COPY changed the object itself: judged by what changed
        ch = set(event.get('changed', []))
        if ch & {'leader', 'active', 'tricknum', 'taken', 'hist', 'done', 'decl', 'dummy', 'trump'}:
            own.add('C04')
        if ch & {'hands', 'used', 'own', 'dum', 'dumset'} or not ch:
            own.add('C05')
        if mode == 'obs':
            own.add('C11')
    if ev in ('avail', 'choose'):
        own.add('C06')
    if ev == 'agree' or mode == 'obs':
        own.add('C11')
    if ev in ('trick', 'peek', 'highest'):
        own.add('C04')
    if fails & {'leader', 'active', 'tricknum', 'taken', 'hist', 'done', 'contract'}:
        own.add('C04')
    if fails & {'result', 'unchanged', 'hands', 'used', 'own', 'dummy-hand', 'caller-hands'}:
        own.add('C05')
    if ev == 'play' and parts.get('exp') != parts.get('got'):
        own.add('C05')
        if mode == 'hands' and parts.get('exp') == 'raises' and parts.get('got') == 'ok':
            own.add('C11')      # the manager accepted what every replica (rightly) refuses
    return own or {'C04', 'C05', 'C06', 'C11'}


def run(pid: str, tier: str) -> int:
    chk = Check(pid, tier)
    run_into(chk, pid, tier)
    return chk.finish()


def run_into(chk: Check, pid: str, tier: str) -> None:
    quick = tier == 'quick'
    sd = seed()
    r = rng('play', pid)
    chk.rule = ('a case is one call on a real playing-phase object in one '
                'state (play offered, playable-set query, example-player '
                'choice, winner-table trick); distinct_nontrivial counts '
                'distinct (trump, declarer, plays so far, call) with at least '
                'one card already played or a non-empty hand queried')
    chk.assumptions += ['TLC, SANY, the Json community module',
                       'the private list of cards of the current trick is not '
                       'read: it is checked through its effects (turn, winner, '
                       'history, playable sets)']

    # ---- 1. design checks -------------------------------------------------
    if quick:
        deals8 = small_deals(PACK8, 2, r, 120)
        deals8b = small_deals(PACK8B, 2, r, 60)
        design(chk, pid, deals8, [sd % 4, NT], [sd % 4], True,
               'Play exhaustive, 120 deals of 4 suits x 2 ranks, revokes allowed')
        design(chk, pid, deals8b, [0, 1], [(sd + 1) % 4], True,
               'Play exhaustive, 60 deals of 2 suits x 4 ranks, revokes allowed')
    else:
        design(chk, pid, small_deals(PACK8, 2, r, None), range(5), range(4), True,
               'Play exhaustive, all 2520 deals of 4 suits x 2 ranks', workers=16)
        design(chk, pid, small_deals(PACK8B, 2, r, 400), [0, 1, 2, NT], [0, 3], True,
               'Play exhaustive, 400 deals of 2 suits x 4 ranks')
        design(chk, pid, small_deals(PACK12, 3, r, 40), [0, 3, NT], [1, 2], True,
               'Play exhaustive, 40 deals of 4 suits x 3 ranks (3 tricks)', workers=16)
    if pid in ('C04', 'C06'):
        # winner / playable tables on the specification itself
        pack = PACK16 if not quick else PACK12
        body = (f'MCDeals == {{}}\nMCPack == {tlc.tla_set(pack)}\n'
                f'MCSub == {tlc.tla_set(PACK12 if not quick else PACK8)}\n'
                + ('ASSUME WinnerAgrees(MCPack)\n' if pid == 'C04'
                   else 'ASSUME PlayableAgrees(MCSub)\n'))
        d = mc_module('MCPlayT', body)
        res = tlc.run_tlc('MCPlayT', play_cfg([0], [0], True), workers=1,
                          spec_dir=d, long_run=True, timeout=3000)
        if 'Assumption' in res.out and 'is false' in res.out:
            res.violated = 'table-assumption'
            chk.model_violation(res, 'winner/playable table on the specification')
        else:
            tlc.require_clean(res, 'table assumption')
        n = len(pack)
        chk.tlc_runs.append({'what': 'ASSUME code-shaped = law-shaped '
                             + ('winner for all ordered 4-tuples x 5 strains'
                                if pid == 'C04' else 'playable set for all hands x leads'),
                             'pack': pack if pid == 'C04' else (PACK12 if not quick else PACK8),
                             'cases': n * (n - 1) * (n - 2) * (n - 3) * 5 if pid == 'C04'
                             else 2 ** len(PACK12 if not quick else PACK8) * (len(PACK12 if not quick else PACK8) + 1),
                             'wall_s': round(res.wall_s, 2)})

    # ---- 2. spec -> code: behaviours generated by TLC ---------------------
    jobs: List[tuple] = []
    beh = export_behaviours(chk, small_deals(PACK8, 2, r, 4 if quick else 12),
                            [0, 2, NT] if quick else range(5),
                            [sd % 4] if quick else range(4), True,
                            'all complete behaviours of sampled reduced-pack deals')
    for k, b in enumerate(beh):
        jobs.append((f'e{k}', b['deal'], b['trump'], b['decl'], b['plays'], 'given',
                     sd, k % 7 == 0, pid == 'C11' or k % 5 == 0))
    full = [random_deal(r) for _ in range(6 if quick else 40)] + \
           [shaped_deal(r) for _ in range(4 if quick else 20)]
    nsim = 24 if quick else 400
    for revokes in (False, True):
        beh = export_behaviours(chk, full, range(5), range(4), revokes,
                                f'simulated 52-card boards (revokes={revokes})',
                                simulate=nsim if not revokes else nsim // 3,
                                depth=60, sd=sd + (1 if revokes else 0))
        for k, b in enumerate(beh):
            jobs.append((f's{int(revokes)}{k}', b['deal'], b['trump'], b['decl'],
                         b['plays'], 'given', sd, True, True))
    # ---- 3. code -> spec: seeded boards -----------------------------------
    nrand = 30 if quick else 1500
    styles = ['legal', 'mixed', 'revoke', 'high']
    for k in range(nrand):
        dl = shaped_deal(r) if k % 3 == 0 else random_deal(r)
        jobs.append((f'r{k}', dl, k % 5, (k // 5) % 4, None, styles[k % 4], sd,
                     True, True))
    # partial boards: short hands of every size (C06: any size 1..13)
    for k in range(13 if quick else 130):
        n = 1 + k % 13
        pack = list(range(52))
        r.shuffle(pack)
        dl = [sorted(pack[n * j:n * (j + 1)]) for j in range(4)]
        jobs.append((f'p{k}', dl, r.randrange(5), r.randrange(4), None,
                     styles[k % 4], sd, True, True))

    # the same boards in an interpreter that strips assert statements (-O)
    from .core import run_optimized
    ojobs = [(('O' + j[0]),) + tuple(j[1:]) for j in jobs[:6 if quick else 60]]
    otraces = run_optimized('harness.play', 'board_trace', ojobs)
    chk.extra['boards_under_python_O'] = len(ojobs)
    # ... and in interpreters with other hash seeds: sets of cards are then
    # iterated in other orders
    hjobs_all, htraces = [], []
    for hs in ('1', '4242') if quick else ('1', '4242', '77', '123456'):
        hjobs = [((f'H{hs}.' + j[0]),) + tuple(j[1:]) for j in jobs[6:12 if quick else 66]]
        htraces += run_optimized('harness.play', 'board_trace', hjobs, flags=(), env={'PYTHONHASHSEED': hs})
        hjobs_all += hjobs
    chk.extra['boards_under_other_hash_seeds'] = len(hjobs_all)
    traces = pmap(board_trace, jobs, chunk=4) + otraces + htraces
    jobs = jobs + ojobs + hjobs_all
    events: List[Dict[str, Any]] = []
    for evs in traces:
        events.extend(evs)

    # winner table / playable table on the real code
    if pid == 'C04':
        pack = PACK12 if quick else PACK16
        tup = list(itertools.permutations(pack, 4))
        if quick:
            tup = [t for j, t in enumerate(tup) if j % 5 == sd % 5]
        tj = []
        per = 200
        for a in range(0, len(tup), per):
            tj.append((f'w{a}', tup[a:a + per], list(range(5)), a % 4))
        for evs in pmap(trick_events, tj):
            events.extend(evs)
        chk.extra['winner_table'] = {'pack': pack, 'tuples': len(tup), 'trumps': 5}
        # the public helper itself, called directly: every suit (and NT) x lists
        # of 0..4 cards (with repeats of a suit, voids, the full pack)
        (Bid, Card, Contract, Hands, Obs, Pair, Player, PP, PPH, Suit, Vul) = _imports()
        hk = 0
        for n_ in range(0, 5):
            for _ in range(60 if quick else 1500):
                cs_ = r.sample(range(52), n_)
                for su in range(5):
                    e = {'tid': f'h{hk}', 'ev': 'highest', 'suit': su, 'cards': cs_, 'res': 'ok', 'out': -9}
                    try:
                        e['out'] = int(PP.calc_highest(Suit(su + 1), [card(c) for c in cs_]))
                    except Exception:  # noqa
                        e['res'] = 'raises'
                    events.append(e)
                    hk += 1
    if pid == 'C06':
        pack = PACK8 if quick else PACK12
        hands = [list(c) for n in range(0, len(pack) + 1)
                 for c in itertools.combinations(pack, n)]
        aj = [(f'a{a}', hands[a:a + 200], [None] + pack) for a in range(0, len(hands), 200)]
        # full-size hands of every size x every led card
        big = []
        for n in range(1, 14):
            for _ in range(2 if quick else 40):
                big.append(sorted(r.sample(range(52), n)))
        aj += [(f'b{a}', big[a:a + 20], [None] + list(range(52))) for a in range(0, len(big), 20)]
        for evs in pmap(avail_events, aj):
            events.extend(evs)
        chk.extra['playable_table'] = {'pack': pack, 'hands': len(hands),
                                       'full_size_hands': len(big)}

    if pid == 'C04':
        # objects that cannot check the cards (no hands / two unseen hands) are told
        # a card that was played before: thirteen tricks are thirteen tricks
        for k_ in range(6 if quick else 60):
            dl = random_deal(r)
            tr_, de_ = r.randrange(5), r.randrange(4)
            tid_ = f'dup{k_}'
            ob = Obj(1, 'plain', NOSEAT, dl, tr_, de_)
            evs_ = [ev_new(tid_, ob, dl, tr_, de_)]
            pack = [c for h in dl for c in h]
            r.shuffle(pack)
            rep_at = r.choice([51, 51, 50, r.randrange(4, 52)])
            for j_ in range(52):
                c_ = pack[j_] if j_ != rep_at else pack[r.randrange(0, min(j_, 4))]
                evs_.append(ev_play(tid_, ob, ob.proj()['active'], c_))
            events.extend(evs_)
        # a second thread (a scoreboard) looks at the object while the cards of
        # the last trick are being played: play over => the counts total 13
        from . import race

        def make_calls_peek():
            Player = _imports()[6]
            rr = rng('racepeek', sd)
            dl = random_deal(rr)
            ob = Obj(0, 'hands', NOSEAT, dl, sd % 5, sd % 4)
            hands = [set(h) for h in dl]
            for _ in range(48):
                a = ob.proj()['active']
                c = sorted(hands[a])[0]
                ob.obj.play_card_by_player(card(c), Player(a + 1))
                hands[a].discard(c)

            def call_a():
                for _ in range(4):
                    a = ob.proj()['active']
                    c = sorted(hands[a])[0]
                    ob.obj.play_card_by_player(card(c), Player(a + 1))
                    hands[a].discard(c)
                return []

            def call_b():
                Pair = _imports()[5]
                o = ob.obj
                done = bool(o.has_done())
                taken = [o.taken_tricks[Pair.NS], o.taken_tricks[Pair.EW]]
                return [{'tid': 'peek', 'ev': 'peek', 'done': done, 'taken': taken}]
            return call_a, call_b
        events.extend(race.run_race(chk, 'a look at the last trick from another thread',
                                    make_calls_peek, 200))

    if pid == 'C06':
        # one example player object serving two tables at the same time (its
        # interface is stateless): every line-level preemption of a decision
        # for table A by a run of decisions for table B
        from . import race

        def make_calls():
            from bridge_env.network_bridge.playing_system import RandomPlay
            shared = RandomPlay()
            rr = rng('race', sd)

            def mk(tag, deal, trump, decl, n):
                def call():
                    out = []
                    ob = Obj(1, 'plain', NOSEAT, deal, trump, decl)
                    out.append(ev_new(tag, ob, deal, trump, decl))
                    hands = [set(h) for h in deal]
                    for _ in range(n):
                        a = ob.proj()['active']
                        e = ev_choose(tag, ob, sorted(hands[a]), rr, shared)
                        out.append(e)
                        if e['res'] != 'ok' or e['out'] not in hands[a]:
                            break
                        out.append(ev_play(tag, ob, a, e['out']))
                        hands[a].discard(e['out'])
                    return out
                return call
            # whole suits in each hand, the two tables rotated against each
            # other: a card chosen for the other table is never held here
            da = [list(range(13 * k, 13 * k + 13)) for k in range(4)]
            db = [list(range(13 * ((k + 1) % 4), 13 * ((k + 1) % 4) + 13)) for k in range(4)]
            return mk('ra', da, NT, 0, 2), mk('rb', db, 1, 0, 9)
        events.extend(race.run_race(chk, 'RandomPlay shared by two tables', make_calls, 150))

        # a second thread waits for its turn while the lead is being played: once
        # it sees that the turn has passed to it, what it is offered follows the
        # suit that was led
        def make_calls_turn():
            (Bid, Card, Contract, Hands, Obs, Pair, Player, PP, PPH, Suit, Vul) = _imports()
            rr = rng('raceturn', sd)
            dl = random_deal(rr)
            ob = Obj(0, 'hands', NOSEAT, dl, NT, sd % 4)
            hands = [set(h) for h in dl]
            for _ in range(4 * (sd % 3)):             # some complete tricks first
                a = ob.proj()['active']
                mp = ob.obj.current_available_cards_in_hand(Player(a + 1))
                c = sorted(cnum(x) for x in mp)[0]
                ob.obj.play_card_by_player(card(c), Player(a + 1))
                hands[a].discard(c)
            leader = ob.proj()['active']
            lead = sorted(hands[leader])[len(hands[leader]) // 2]

            def call_a():
                ob.obj.play_card_by_player(card(lead), Player(leader + 1))
                return []

            def call_b():
                a = ob.obj.active_player.value - 1
                if a == leader:
                    return []
                out = ob.obj.current_available_cards_in_hand(Player(a + 1))
                return [{'tid': 'turn', 'ev': 'avail', 'kind': 'static', 'o': 0,
                         'hand': sorted(hands[a]), 'led': lead, 'res': 'ok',
                         'out': cards_sorted(out)}]
            return call_a, call_b
        events.extend(race.run_race(chk, 'the next seat looks while the lead is being played',
                                    make_calls_turn, 120))

    # coverage book-keeping
    seen = set()
    plays_so_far: Dict[Any, list] = {}
    for e in events:
        chk.evaluations += 1
        if e['ev'] == 'new':
            plays_so_far[(e['tid'], e['o'])] = [e['trump'], e['decl'], []]
            continue
        if e['ev'] in ('peek', 'highest'):
            continue
        if e['ev'] in ('trick',):
            seen.add(hash(('t', e['trump'], tuple(e['cards']))))
            continue
        if e['ev'] == 'avail' and e['kind'] == 'static':
            if e['hand']:
                seen.add(hash(('a', tuple(e['hand']), e['led'])))
            continue
        st = plays_so_far.get((e['tid'], e.get('o')))
        if st is None:
            continue
        if st[2]:
            seen.add(hash((st[0], st[1], tuple(st[2]), e['ev'], e.get('seat'),
                           e.get('card'), e.get('kind'))))
        if e['ev'] == 'play' and e['res'] == 'ok':
            st[2] = st[2] + [e['card']]
    chk.distinct = seen
    for j in jobs[:1] + jobs[len(jobs) // 2:len(jobs) // 2 + 1] + jobs[-1:]:
        chk.sample({'tid': j[0], 'deal': j[1], 'trump': j[2], 'declarer': j[3],
                    'plays': j[4], 'style': j[5]})
    chk.extra['events'] = len(events)
    chk.extra['boards'] = len(jobs)

    rejects = validate_traces(chk, 'PlayTrace', events,
                              'real playing-phase objects vs Play!PStep',
                              heap='4g')
    mine = [x for x in rejects if pid in owners(x.clause, x.event)]
    others = [x for x in rejects if pid not in owners(x.clause, x.event)]
    if others:
        chk.note(f'{len(others)} rejected traces concern other play properties '
                 f'only ({sorted({p for x in others for p in owners(x.clause)})}); '
                 f'they are reported by those checks')
    report_rejects(chk, mine, 'play', key_of=lambda x: f'play:{x.clause}')
