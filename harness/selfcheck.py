"""Self-check of the controlled primitives of harness/baton.py against the
real CPython objects on canonical scenarios (the semantics specified in
spec/PyThreading.tla).  A disagreement is a machinery error: the baton would
not represent the platform the server runs on."""
from __future__ import annotations

import queue
import random
import threading
import time
from typing import Any, Dict, List

from . import baton
from .tlc import MachineryError


def _real_event_inside_waiter() -> str:
    ev = threading.Event()
    out: List[str] = []

    def a():
        out.append('passed' if ev.wait(30.0) else 'timeout')
    t = threading.Thread(target=a, daemon=True)
    t.start()
    for _ in range(30000):                      # until A is inside wait()
        if len(ev._cond._waiters) >= 1:         # introspection, no sleep-race
            break
        time.sleep(0.001)
    ev.set()
    ev.clear()
    t.join(40.0)
    return out[0] if out else 'stuck'


def _real_event_late_waiter() -> str:
    ev = threading.Event()
    ev.set()
    ev.clear()
    return 'passed' if ev.wait(0.15) else 'blocked'


def _real_barrier(n: int, g: int) -> Dict[str, Any]:
    bar = threading.Barrier(n)
    gens = [0] * n
    worst = [0]
    lock = threading.Lock()

    def w(i):
        for _ in range(g):
            if i != 0:
                time.sleep(0.002 * i)
            bar.wait(60.0)
            with lock:
                gens[i] += 1
                worst[0] = max(worst[0], max(gens) - min(gens))
    ts = [threading.Thread(target=w, args=(i,), daemon=True) for i in range(n)]
    for t in ts:
        t.start()
    for t in ts:
        t.join(120.0)
    return {'gens': gens, 'max_lead': worst[0]}


def _real_queue() -> Dict[str, Any]:
    q: queue.Queue = queue.Queue()
    for x in (1, 2, 3):
        q.put(x)
    got = [q.get(), q.get(), q.get()]
    try:
        q.get(timeout=0.1)
        empty = 'returned'
    except queue.Empty:
        empty = 'blocked'
    return {'order': got, 'empty': empty}


def _ctl(policy, build) -> Dict[str, Any]:
    s = baton.Sched(policy, max_blocks=10000)
    state = build(s)
    v = s.run(timeout=20.0)
    state['verdict'] = v
    return state


def _ctl_event_inside_waiter(policy) -> str:
    def build(s):
        ev = baton.CEvent(s, 'e')
        st = {'out': None}

        def a():
            ev.wait()
            st['out'] = 'passed'

        def m():
            # proceed only once A is registered as a waiter
            s.yield_point('until-inside', None, lambda: 'a' in ev.waiters)
            ev.set()
            ev.clear()
        s.spawn('a', a)
        s.spawn('m', m)
        return st
    r = _ctl(policy, build)
    return r['out'] or ('stuck:' + r['verdict'])


def _ctl_event_late_waiter(policy) -> str:
    def build(s):
        ev = baton.CEvent(s, 'e')
        st = {'out': None, 'cleared': False}

        def m():
            ev.set()
            ev.clear()
            st['cleared'] = True

        def a():
            s.yield_point('after-clear', None, lambda: st['cleared'])
            ev.wait()
            st['out'] = 'passed'
        s.spawn('m', m)
        s.spawn('a', a)
        return st
    r = _ctl(policy, build)
    return 'passed' if r['out'] else ('blocked' if r['verdict'] == 'deadlock' else r['verdict'])


def _ctl_barrier(policy, n: int, g: int) -> Dict[str, Any]:
    def build(s):
        bar = baton.CBarrier(s, n)
        st = {'gens': [0] * n, 'max_lead': 0}

        def mk(i):
            def w():
                for _ in range(g):
                    bar.wait()
                    st['gens'][i] += 1
                    st['max_lead'] = max(st['max_lead'], max(st['gens']) - min(st['gens']))
            return w
        for i in range(n):
            s.spawn(f't{i}', mk(i))
        return st
    return _ctl(policy, build)


def _ctl_queue(policy) -> Dict[str, Any]:
    def build(s):
        q = baton.CQueue(s, 'q')
        st = {'order': [], 'empty': None}

        def m():
            for x in (1, 2, 3):
                q.put(x)
            st['order'] = [q.get(), q.get(), q.get()]
            q.get()
            st['empty'] = 'returned'
        s.spawn('m', m)
        return st
    r = _ctl(policy, build)
    r['empty'] = r['empty'] or ('blocked' if r['verdict'] == 'deadlock' else r['verdict'])
    return r


def run(seed_: int = 0) -> Dict[str, Any]:
    res: Dict[str, Any] = {}
    real = {'inside': _real_event_inside_waiter(), 'late': _real_event_late_waiter(),
            'barrier': _real_barrier(4, 4), 'queue': _real_queue()}
    res['real'] = real
    bad: List[str] = []
    for k in range(6):
        rnd = random.Random(seed_ * 100 + k)
        pol = baton.Fifo() if k == 0 else baton.UniformPolicy(rnd)
        c = {'inside': _ctl_event_inside_waiter(pol)}
        pol = baton.Fifo() if k == 0 else baton.UniformPolicy(rnd)
        c['late'] = _ctl_event_late_waiter(pol)
        pol = baton.Fifo() if k == 0 else baton.UniformPolicy(rnd)
        c['barrier'] = _ctl_barrier(pol, 4, 4)
        pol = baton.Fifo() if k == 0 else baton.UniformPolicy(rnd)
        c['queue'] = _ctl_queue(pol)
        if c['inside'] != real['inside']:
            bad.append(f'event inside-waiter: real {real["inside"]} controlled {c["inside"]}')
        if c['late'] != real['late']:
            bad.append(f'event late waiter: real {real["late"]} controlled {c["late"]}')
        if c['barrier']['gens'] != real['barrier']['gens'] or c['barrier']['max_lead'] > 1 \
                or real['barrier']['max_lead'] > 1:
            bad.append(f'barrier: real {real["barrier"]} controlled {c["barrier"]}')
        if c['queue']['order'] != real['queue']['order'] or c['queue']['empty'] != real['queue']['empty']:
            bad.append(f'queue: real {real["queue"]} controlled {c["queue"]}')
        res[f'controlled{k}'] = {'inside': c['inside'], 'late': c['late'],
                                 'barrier': c['barrier']['gens'], 'queue': c['queue']['order']}
    if bad:
        raise MachineryError('baton self-check failed: ' + '; '.join(bad[:4]))
    res['scenarios'] = 4
    res['schedules'] = 6
    return res
