"""C07 (duplicate scores) and C16 (IMP scale) against Score.tla / ImpScale.tla."""
from __future__ import annotations

import re
import shutil
import subprocess
import time
from typing import Any, Dict, List

from . import tlc
from .core import (Check, MachineryError, design_check, report_rejects, rng,
                   seed, validate_traces)

NOCALL, NOSEAT = 38, 4


def _imports():
    from bridge_env import Bid, Contract, Player, Vul
    from bridge_env import score
    return Bid, Contract, Player, Vul, score


_BLOCKED = [0]


def _guarded(fn, *a):
    """fn(*a) with a watchdog: a call that does not return (a lock left held by
    an earlier call, a loop that does not end) is a result like any other -
    the scoring functions are pure arithmetic and return at once.  (An interval
    timer: its signal interrupts a lock acquisition in the main thread.)"""
    import signal
    import threading
    if threading.current_thread() is not threading.main_thread():
        return fn(*a)

    def on_timer(signum, frame):
        raise TimeoutError('the call did not return (blocked)')
    old = signal.signal(signal.SIGALRM, on_timer)
    signal.setitimer(signal.ITIMER_REAL, 30.0 if _BLOCKED[0] == 0 else 0.2 if _BLOCKED[0] < 5 else 0.02)
    try:
        return fn(*a)
    except TimeoutError:
        _BLOCKED[0] += 1
        raise
    finally:
        signal.setitimer(signal.ITIMER_REAL, 0)
        signal.signal(signal.SIGALRM, old)


def _call(fn, *a):
    try:
        r = _guarded(fn, *a)
        if isinstance(r, bool) or not isinstance(r, int):
            try:
                import numpy as np
                if isinstance(r, np.integer):
                    return {'raised': False, 'res': int(r)}
            except Exception:  # noqa
                pass
            return {'raised': True, 'res': 0, 'msg': f'returned {type(r).__name__} {r!r}'[:80]}
        if abs(r) >= 2 ** 31:
            return {'raised': True, 'res': 0, 'msg': f'returned {r}'}
        return {'raised': False, 'res': r}
    except Exception as ex:  # noqa
        return {'raised': True, 'res': 0, 'msg': f'{type(ex).__name__}: {ex}'[:80]}


def score_events(order: str, r) -> List[Dict[str, Any]]:
    """calc_score on the complete domain, in one process (so that state kept
    between calls - caches - shows), in the given order."""
    Bid, Contract, Player, Vul, score = _imports()
    dom = [(b, x, xx, v, d, t) for b in range(35) for (x, xx) in
           ((False, False), (True, False), (True, True), (False, True))
           for d in range(4) for t in range(14) for v in range(4)]
    if order == 'shuffled':
        r.shuffle(dom)
    elif order == 'reversed':
        dom.reverse()
    evs = []
    for k, (b, x, xx, v, d, t) in enumerate(dom):
        c = Contract(Bid.int_to_bid(b), x=x, xx=xx, vul=Vul(v + 1),
                     declarer=Player(d + 1))
        e = {'tid': f'{order[0]}{k}', 'ev': 'score', 'bid': b, 'x': x, 'xx': xx,
             'vul': v, 'decl': d, 'tricks': t}
        e.update(_call(score.calc_score, c, t))
        evs.append(e)
        if order == 'shuffled' and k % 17 == 3:
            # the number of tricks as an integer of another type
            import enum
            T = enum.IntEnum('T', {f't{j}': j for j in range(14)})
            for nm, tv in (('intenum', T(t)), ('bool-or-int', True if t == 1 else False if t == 0 else t)):
                e3 = dict(e, tid=f'{order[0]}{k}.{nm}')
                for key in ('raised', 'res', 'msg'):
                    e3.pop(key, None)
                e3.update(_call(score.calc_score, c, tv))
                evs.append(e3)
            try:
                import numpy as np
                e3 = dict(e, tid=f'{order[0]}{k}.np')
                for key in ('raised', 'res', 'msg'):
                    e3.pop(key, None)
                res3 = _call(score.calc_score, c, np.int64(t))
                if not (res3['raised'] and 'TypeError' in res3.get('msg', '')):
                    e3.update(res3)
                    evs.append(e3)
                # an unsigned count (a row of a result table kept as uint8 / uint16)
                e4 = dict(e, tid=f'{order[0]}{k}.npu')
                for key in ('raised', 'res', 'msg'):
                    e4.pop(key, None)
                res4 = _call(score.calc_score, c, (np.uint32 if k % 2 else np.uint16)(t))
                if not (res4['raised'] and ('TypeError' in res4.get('msg', '') or 'OverflowError' in res4.get('msg', ''))):
                    e4.update(res4)
                    evs.append(e4)
            except ImportError:
                pass
        if order == 'shuffled' and k % 5 == 0:
            # the contract reaches the scorer as a copy (a checkpoint restored, an
            # object sent to a worker process): it must still be the same contract
            import copy
            import pickle
            how = ['copy', 'deepcopy', 'pickle', 'replace', 'fields'][(k // 5) % 5]
            e2 = dict(e, tid=f'{order[0]}{k}.{how}')
            for key in ('raised', 'res', 'msg'):
                e2.pop(key, None)
            try:
                if how in ('replace', 'fields'):
                    # the contract is DERIVED from another one that was scored before
                    # (the same bid by the other side, other vulnerability, other doubling)
                    import dataclasses
                    base = Contract(Bid.int_to_bid(b), x=not x, xx=False, vul=Vul((v + 1 + k % 3) % 4 + 1),
                                    declarer=Player((d + 1) % 4 + 1))
                    score.calc_score(base, t)
                    kw = dict(x=x, xx=xx, vul=Vul(v + 1), declarer=Player(d + 1))
                    if how == 'replace':
                        c2 = dataclasses.replace(base, **kw)
                    else:
                        f = {fl.name: getattr(base, fl.name) for fl in dataclasses.fields(base) if fl.init}
                        f.update(kw)
                        c2 = Contract(**f)
                else:
                    c2 = copy.copy(c) if how == 'copy' else copy.deepcopy(c) if how == 'deepcopy' \
                        else pickle.loads(pickle.dumps(c))
                e2.update(_call(score.calc_score, c2, t))
            except Exception as ex:  # noqa
                e2.update({'raised': True, 'res': 0, 'msg': f'{how}: {type(ex).__name__}'})
            evs.append(e2)
    # passed-out contracts: both spellings, every vulnerability, every count
    k = 0
    for fb in (None, Bid.Pass):
        for v in range(4):
            for t in list(range(14)) + [None]:
                c = Contract(fb, vul=Vul(v + 1))
                e = {'tid': f'{order[0]}p{k}', 'ev': 'score', 'bid': NOCALL,
                     'x': False, 'xx': False, 'vul': v, 'decl': NOSEAT,
                     'tricks': 0 if t is None else t}
                e.update(_call(score.calc_score, c, 0 if t is None else t))
                evs.append(e)
                k += 1
    return evs


def bidscore_events() -> List[Dict[str, Any]]:
    Bid, Contract, Player, Vul, score = _imports()
    evs = []
    k = 0
    for b in range(35):
        for (x, xx) in ((False, False), (True, False), (True, True), (False, True)):
            for vf in (False, True):
                for t in range(14):
                    e = {'tid': f'b{k}', 'ev': 'bidscore', 'bid': b, 'x': x,
                         'xx': xx, 'vulflag': vf, 'tricks': t}
                    e.update(_call(score.calc_bid_score, Bid.int_to_bid(b), x, xx, vf, t))
                    evs.append(e)
                    k += 1
    return evs


def auction_contract_events(r, n: int) -> List[Dict[str, Any]]:
    """Contracts as BiddingPhase really produces them (seeded auctions)."""
    from .auction import random_history
    Bid, Contract, Player, Vul, score = _imports()
    from bridge_env import BiddingPhase
    evs = []
    for k in range(n):
        d, v, h = random_history(r, ['uniform', 'passy', 'doubly'][k % 3])
        bp = BiddingPhase(dealer=Player(d + 1), vul=Vul(v + 1))
        for c in h:
            bp.take_bid(Bid.int_to_bid(c))
        c = bp.contract()
        if c is None:
            continue
        for t in (0, 6, 7, 13, r.randrange(14)):
            po = c.is_passed_out()
            e = {'tid': f'a{k}.{t}', 'ev': 'score',
                 'bid': NOCALL if po else c.final_bid.idx, 'x': bool(c.x),
                 'xx': bool(c.xx), 'vul': c.vul.value - 1,
                 'decl': NOSEAT if c.declarer is None else c.declarer.value - 1,
                 'tricks': t}
            e.update(_call(score.calc_score, c, t))
            evs.append(e)
    return evs


def run_c07(pid: str, tier: str) -> int:
    chk = Check(pid, tier)
    r = rng('score')
    chk.rule = ('a case is one call of calc_score / calc_bid_score; distinct '
                'cases are distinct argument tuples; all are non-trivial '
                '(every tuple is a contract with a result)')
    chk.assumptions = ['the oracle is the TLA+ formula Score!Duplicate written '
                       'from Law 77, independent of the tables in score.py and '
                       'of the table in the test file',
                       'TLC, SANY, the Json community module']
    design_check(chk, 'Score',
                 tlc.cfg_text(specification='Spec',
                              invariants=['MadeIsPositive', 'DefeatedIsNegative',
                                          'MonotoneInTricks', 'DoublingRaisesStakes',
                                          'VulOnlyDeclarersSide', 'KnownScores']),
                 'Score.tla sanity laws on the complete domain',
                 constants='35 bids x 3 doubling states x 4 vulnerabilities x 4 declarers x 14 trick counts',
                 workers=8)
    # two callers at the same time, the first calls of the process (before
    # anything else has used the scoring functions in this process)
    from . import race

    def make_calls():
        Bid, Contract, Player, Vul, score = _imports()

        def mk(tag, items):
            def call():
                out = []
                for k, (b, x, xx, v, d, t) in enumerate(items):
                    c = Contract(Bid.int_to_bid(b), x=x, xx=xx, vul=Vul(v + 1), declarer=Player(d + 1))
                    e = {'tid': f'{tag}{k}', 'ev': 'score', 'bid': b, 'x': x, 'xx': xx, 'vul': v,
                         'decl': d, 'tricks': t}
                    e.update(_call(score.calc_score, c, t))
                    out.append(e)
                return out
            return call
        return (mk('a', [(34, True, True, 3, 0, 13), (0, False, False, 0, 1, 0), (14, True, False, 1, 2, 9)]),
                mk('b', [(34, False, False, 3, 1, 13), (19, True, True, 2, 3, 6), (29, False, False, 1, 0, 12),
                         (3, True, False, 0, 2, 7), (24, False, False, 3, 3, 11)]))
    race_events = race.run_race(chk, 'calc_score', make_calls, 200)
    events = race_events + score_events('natural', r)
    events += score_events('shuffled', r)
    if tier == 'thorough':
        events += score_events('reversed', r)
    events += bidscore_events()
    events += auction_contract_events(r, 200 if tier == 'quick' else 3000)
    from .core import repo_test_events
    rt = [e for e in repo_test_events(['tests']) if e.get('ev') in ('score', 'bidscore')]
    for e in rt:
        e.pop('src', None)
    chk.extra['repo_test_events'] = len(rt)
    events += rt
    for e in events:
        chk.count((e['ev'], e['bid'], e['x'], e['xx'], e.get('vul', e.get('vulflag')),
                   e.get('decl'), e['tricks']))
    chk.exhaustive = True
    chk.sample(events[1234])
    chk.sample(events[-1])
    chk.sample([e for e in events if e['bid'] == NOCALL][5])
    chk.extra['events'] = len(events)
    rejects = validate_traces(chk, 'ScoreTrace', events,
                              'real calc_score / calc_bid_score vs Score!Duplicate',
                              shards=8)
    report_rejects(chk, rejects, 'score',
                   key_of=lambda x: f'score:{x.clause}:{x.event["ev"]}:bid={x.event["bid"]}:'
                                    f'x={x.event["x"]}:xx={x.event["xx"]}:'
                                    f'vul={x.event.get("vul", x.event.get("vulflag"))}:'
                                    f'decl={x.event.get("decl")}:tricks={x.event["tricks"]}')
    return chk.finish()


# --------------------------------------------------------------------------
THRESHOLDS = (20, 50, 90, 130, 170, 220, 270, 320, 370, 430, 500, 600, 750,
              900, 1100, 1300, 1500, 1750, 2000, 2250, 2500, 3000, 3500, 4000)


def run_tlapm(chk: Check) -> Dict[str, Any]:
    d = tlc.fresh('tlapm')
    d.mkdir(parents=True)
    shutil.copy(tlc.SPEC / 'ImpScale.tla', d / 'ImpScale.tla')
    t0 = time.time()
    cmd = ['tlapm', '--cleanfp', 'ImpScale.tla']
    try:
        p = subprocess.run(cmd, cwd=str(d), stdout=subprocess.PIPE,
                           stderr=subprocess.STDOUT, text=True, timeout=600)
    except (OSError, subprocess.TimeoutExpired) as ex:
        raise MachineryError(f'tlapm could not be run: {ex}')
    out = p.stdout
    m = re.search(r'All (\d+) obligations? proved', out)
    info = {'checker_cmd': 'tlapm --cleanfp spec/ImpScale.tla',
            'wall_s': round(time.time() - t0, 2),
            'theorems': ['ImpsOdd', 'ImpsMonotone', 'ImpsRange', 'ImpsSaturation']}
    if m:
        info['obligations'] = info['discharged'] = int(m.group(1))
    else:
        mm = re.search(r'(\d+)/(\d+) obligations? failed', out)
        if mm:
            info['obligations'] = int(mm.group(2))
            info['discharged'] = int(mm.group(2)) - int(mm.group(1))
            chk.violation('model:ImpScale-proof',
                          'tlapm could not prove the theorems of ImpScale.tla',
                          {'kind': 'tlapm', 'out': out[-3000:]})
        else:
            raise MachineryError(f'tlapm output not understood:\n{out[-2000:]}')
    return info


def imp_events(tier: str, r) -> List[Dict[str, Any]]:
    Bid, Contract, Player, Vul, score = _imports()
    f, g = score.point_difference_to_imps, score.score_to_imp
    evs: List[Dict[str, Any]] = []
    lim = 4300 if tier == 'quick' else 12000
    for d in range(-lim, lim + 1):
        e = {'tid': f'd{d}', 'ev': 'imp', 'd': d}
        e.update(_call(f, d))
        evs.append(e)
    # calls that are (rightly) refused - not an integer at all - come in between:
    # nothing is claimed about THEM, but every conversion of an integer
    # afterwards must still be answered
    for bad in (None, '120', [], object()):
        for fn_, args in ((f, (bad,)), (g, (bad, 100)), (g, (100, bad))):
            try:
                _guarded(fn_, *args)
            except BaseException:  # noqa
                pass
    for d in range(lim, -lim - 1, -7):          # again, downwards (call-order dependence)
        e = {'tid': f'u{d}', 'ev': 'imp', 'd': d}
        e.update(_call(f, d))
        evs.append(e)
    # wide and huge magnitudes
    wide = [r.randrange(-2 ** 30, 2 ** 30) for _ in range(300 if tier == 'quick' else 5000)]
    wide += [s * (t + o) * 1 for t in (10 ** 4, 10 ** 5, 10 ** 6, 2 ** 30 - 1)
             for o in (-1, 0, 1) for s in (1, -1)]
    for k, d in enumerate(wide):
        e = {'tid': f'w{k}', 'ev': 'imp', 'd': d}
        e.update(_call(f, d))
        evs.append(e)
    for k, mag in enumerate([2 ** 31, 2 ** 31 + 1, 2 ** 32, 2 ** 63, 2 ** 64 + 7,
                             10 ** 30, 10 ** 100,
                             # beyond what a C double can hold
                             2 ** 1023, 2 ** 1024, 2 ** 1024 + 1, 10 ** 400, 10 ** 1000 + 7,
                             # beyond what int -> str conversion accepts by default (4300 digits)
                             10 ** 4299, 10 ** 4300, 10 ** 5000 + 1, 3 ** 40000]
                            + [r.randrange(2 ** 31, 2 ** 80) for _ in range(40)]):
        for s in (1, -1):
            e = {'tid': f'g{k}.{s}', 'ev': 'impbig', 'sign': s,
                 'digits': int(mag.bit_length() * 0.30103) + 1}
            e.update(_call(f, s * mag))
            evs.append(e)
    # the other ways into the same functions: keyword arguments, **dict,
    # functools.partial, bool (an int), and the two-score form with huge sums
    import functools
    entry = [('kw', lambda d: f(point_difference=d)),
             ('dict', lambda d: f(**{'point_difference': d})),
             ('partial', lambda d: functools.partial(f, point_difference=d)()),
             ('partial-pos', lambda d: functools.partial(f, d)())]
    for k, d in enumerate([-500, 500, -20, -10, 0, 10, 20, -4000, 4000, -7600, 1, -1, 45, -45,
                           -1750, 1740, -2250, 3490, -3500]):
        for name, fn in entry:
            e = {'tid': f'k{k}.{name}', 'ev': 'imp', 'd': d, 'entry': name}
            e.update(_call(fn, d))
            evs.append(e)
    # integers of other types: subclasses of int (an IntEnum member, a bool, a
    # user's own class) ARE integers; numpy integers are what array code hands
    # over - a refusal of those is accepted, a wrong value is not
    import enum

    class MyInt(int):
        pass
    Swing = enum.IntEnum('Swing', {'A': 20, 'B': 430, 'C': 4000, 'D': 10, 'E': 3490})
    others = [('int-subclass', MyInt), ('negated-subclass', lambda d: -MyInt(-d))]
    try:
        import numpy as np
        others += [('np.int64', np.int64), ('np.int32', np.int32), ('np.int16', lambda d: np.int16(max(-32000, min(32000, d))))]
    except ImportError:
        pass
    for k, d in enumerate([-500, 500, -20, -10, 0, 10, 20, -4000, 4000, -7600, 19, -19, 45, -1750, 1740, 3490, -3500,
                           r.randrange(-8000, 8000), r.randrange(-8000, 8000)]):
        for name, conv in others:
            dv = conv(d)
            e = {'tid': f't{k}.{name}', 'ev': 'imp', 'd': int(dv), 'entry': name}
            res = _call(f, dv)
            if name.startswith('np.') and name != 'np.int64' and res['raised'] and 'TypeError' in res.get('msg', ''):
                continue          # (numpy's own default integer is an integer: it must be answered)
            e.update(res)
            evs.append(e)
            e2 = {'tid': f't{k}.{name}.2', 'ev': 'imp2', 'a': int(dv), 'b': 50, 'entry': name}
            res = _call(g, dv, conv(50))
            if name.startswith('np.') and res['raised'] and 'TypeError' in res.get('msg', ''):
                continue
            e2.update(res)
            evs.append(e2)
    for m_ in Swing:
        for sg in (1, -1):
            e = {'tid': f'te{m_.name}{sg}', 'ev': 'imp', 'd': sg * int(m_), 'entry': 'IntEnum'}
            e.update(_call(f, m_ if sg == 1 else -m_))
            evs.append(e)
    for bv in (True, False):
        e = {'tid': f'tb{bv}', 'ev': 'imp', 'd': int(bv), 'entry': 'bool'}
        e.update(_call(f, bv))
        evs.append(e)
    # two huge scores whose SUM is small: the two-score form is the scale of the sum
    for k, (big, d) in enumerate([(10 ** 30, 50), (2 ** 1024, -430), (10 ** 400, 0), (10 ** 4300, 20),
                                  (10 ** 5000, 50), (3 ** 40000, -3999), (10 ** 5000, 4000)]):
        for sg in (1, -1):
            e = {'tid': f'h{k}.{sg}', 'ev': 'imp', 'd': d, 'entry': 'two huge scores',
                 'digits': int(big.bit_length() * 0.30103) + 1}
            e.update(_call(g, sg * big, d - sg * big))
            evs.append(e)
            e = {'tid': f'h{k}.{sg}b', 'ev': 'imp', 'd': d, 'entry': 'two huge scores, swapped'}
            e.update(_call(g, d - sg * big, sg * big))
            evs.append(e)
    for k, (a, b) in enumerate([(300, -200), (-300, 200), (-7600, -7600), (0, -20), (-20, 0), (10, -30)]):
        for name, fn in [('kw', lambda a_, b_: g(first_score=a_, second_score=b_)), ('kw-swapped', lambda a_, b_: g(second_score=b_, first_score=a_))]:
            e = {'tid': f'k2{k}.{name}', 'ev': 'imp2', 'a': a, 'b': b, 'entry': name}
            e.update(_call(fn, a, b))
            evs.append(e)
    # the two-score form: sums adjacent to every threshold, equal and opposite
    # scores, scores off the 10-point grid
    pairs = []
    for t in THRESHOLDS:
        for o in (-11, -10, -1, 0, 1, 9, 10):
            for s in (1, -1):
                a = r.randrange(-7600, 7601)
                pairs.append((a, s * (t + o) - a))
                pairs.append((s * (t + o) - a, a))
        pairs.append((t, t)); pairs.append((-t, -t)); pairs.append((t, -t))
        pairs.append((t // 2, t - t // 2)); pairs.append((-(t // 2), -(t - t // 2)))
    for a, b in ((7600, 7600), (-7600, -7600), (-7600, -400), (7600, 400), (7600, -7600),
                 (4000, 3999), (-3999, -4000), (7600, 0), (0, -7600), (5000, 5000)):
        pairs.append((a, b)); pairs.append((b, a))
    for a in (0, 50, 100, 110, 420, 620, 1430, 2980, 7600, 15, 33):
        for b in (a, -a, a + 10, -a - 10, 0):
            pairs.append((a, b)); pairs.append((-a, b))
    for _ in range(500 if tier == 'quick' else 20000):
        pairs.append((r.randrange(-7600, 7601), r.randrange(-7600, 7601)))
    for k, (a, b) in enumerate(pairs):
        e = {'tid': f'p{k}', 'ev': 'imp2', 'a': a, 'b': b}
        e.update(_call(g, a, b))
        evs.append(e)
    return evs


def run_c16(pid: str, tier: str) -> int:
    chk = Check(pid, tier)
    r = rng('imp')
    chk.rule = ('a case is one call of point_difference_to_imps / score_to_imp; '
                'distinct cases are distinct arguments; non-trivial = the '
                'argument (or sum) is non-zero')
    chk.assumptions = ['tlapm 1.6 with its SMT back end (the four theorems hold '
                       'for every integer); TLC; beyond 32-bit magnitudes the '
                       'real function is sampled and compared with the proved '
                       'saturation value']
    proof = run_tlapm(chk)
    chk.extra['proof'] = proof
    chk.extra['obligations'] = proof.get('obligations', 0)
    chk.extra['discharged'] = proof.get('discharged', 0)
    chk.extra['checker_cmd'] = proof['checker_cmd']
    chk.extra['trusted_base'] = ['tlapm', 'SMT back end (z3)', 'TLC']
    # TLC: step function = declarative definition, on a finite range
    d = tlc.fresh('mcimp')
    d.mkdir(parents=True)
    (d / 'MCImp.tla').write_text(
        '---- MODULE MCImp ----\nEXTENDS Score\nASSUME ImpScaleChecks\n====\n')
    res = tlc.run_tlc('MCImp', tlc.cfg_text(specification='Spec'), workers=4,
                      spec_dir=d, timeout=1200)
    if 'Assumption' in res.out and 'is false' in res.out:
        res.violated = 'ImpScaleChecks'
        chk.model_violation(res, 'IMP step function vs declarative scale')
    else:
        tlc.require_clean(res, 'ImpScaleChecks')
    chk.add_tlc(res, 'ASSUME ImpScaleChecks on -6000..6000 (+ Score domain)')
    from . import race

    def make_calls():
        Bid, Contract, Player, Vul, score = _imports()

        def mk(tag, ds, pairs):
            def call():
                out = []
                for k, d in enumerate(ds):
                    e = {'tid': f'{tag}{k}', 'ev': 'imp', 'd': d}
                    e.update(_call(score.point_difference_to_imps, d))
                    out.append(e)
                for k, (a, b) in enumerate(pairs):
                    e = {'tid': f'{tag}p{k}', 'ev': 'imp2', 'a': a, 'b': b}
                    e.update(_call(score.score_to_imp, a, b))
                    out.append(e)
                return out
            return call
        return (mk('a', [600, -45, 4010], [(420, 420)]),
                mk('b', [0, 19, 20, 600, -600, 3999, 4000, 5000, 7600, -7600, 12345], [(100, -600), (7600, 400)]))
    race_events = race.run_race(chk, 'imps', make_calls, 200)
    events = race_events + imp_events(tier, r)
    from .core import repo_test_events
    rt = [e for e in repo_test_events(['tests']) if e.get('ev') in ('imp', 'imp2')]
    for e in rt:
        e.pop('src', None)
    chk.extra['repo_test_events'] = len(rt)
    events += rt
    for e in events:
        key = (e['ev'], e.get('d'), e.get('a'), e.get('b'), e.get('sign'), e.get('digits'))
        nz = (e.get('d', 1) != 0) and (e.get('a', 1) + e.get('b', 0) != 0)
        chk.evaluations += 1
        if nz:
            chk.distinct.add(key)
    for k in (0, len(events) // 2, -1):
        chk.sample(events[k])
    chk.extra['events'] = len(events)
    rejects = validate_traces(chk, 'ScoreTrace', events,
                              'real IMP functions vs ImpScale!Imps', shards=8)
    report_rejects(chk, rejects, 'imp',
                   key_of=lambda x: f'imp:{x.clause}:' + ','.join(
                       f'{k}={x.event[k]}' for k in ('d', 'a', 'b', 'sign', 'digits')
                       if k in x.event))
    return chk.finish()


def run(pid: str, tier: str) -> int:
    return run_c07(pid, tier) if pid == 'C07' else run_c16(pid, tier)
