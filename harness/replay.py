"""bin/check <property> --replay <file>: reproduces a recorded violation.

Two ways, depending on what the replay file holds:

* a rejected trace / session (events recorded from the real code): the
  events are validated again by TLC with the same trace specification - the
  verdict is a function of the file alone; if the trace holds its complete
  auction / play history the calls are ALSO performed again on the real
  objects of the current tree and the fresh events validated, which tells
  whether the current tree still misbehaves on that input;
* anything else (a TLC counterexample of the specification, a schedule, a
  framing scenario ...): the check is run again with the recorded seed and
  tier - every generator derives from VERIF_SEED and PYTHONHASHSEED=0 - and
  the violation is reproduced iff a finding with the same key is reported.

Exit 1 and a VIOLATION line when the violation is reproduced, exit 0 when the
current tree no longer shows it, exit 2 for machinery failure."""
from __future__ import annotations

import json
import os
import subprocess
import sys
from pathlib import Path

from . import core
from .core import Check, MachineryError, validate_traces
from .tlc import VERIF


def _redrive(module: str, events):
    """Performs the recorded calls again on the real objects (auction and
    manager-play traces that start with their 'new' event)."""
    if not events or events[0].get('ev') != 'new':
        return None
    try:
        if module == 'AuctionTrace':
            from .auction import new_events, step_event
            tid = events[0]['tid']
            bp, e0 = new_events(tid, events[0]['dealer'], events[0]['vul'])
            out = [e0]
            for e in events[1:]:
                if e.get('ev') != 'take' or e.get('tid') != tid:
                    return None
                out.append(step_event(tid, bp, e['call']))
            return out
    except (ImportError, AttributeError, KeyError, TypeError):
        return None
    return None


def run(pid: str, path: str) -> int:
    p = Path(path)
    if not p.exists():
        raise MachineryError(f'no such replay file: {path}')
    rec = json.loads(p.read_text())
    rp = rec.get('replay', {})
    kind = rp.get('kind')
    print(f'replay of {rec.get("key")} (property {rec.get("property")}, seed {rec.get("seed")}, '
          f'tier {rec.get("tier")}, kind {kind})')
    chk = Check(pid, rec.get('tier', 'quick'))
    if kind in ('rejected-trace', 'rejected-session'):
        module = rp.get('module') or ('TableTrace' if kind == 'rejected-session' else None)
        events = rp.get('events') or [rp['event']]
        if module:
            rejects = validate_traces(chk, module, events, f'replay of {p.name}', shards=1)
            for r in rejects:
                print(f'recorded trace: rejected at line {r.line}, clause "{r.clause}"')
            if not rejects:
                print('recorded trace: accepted by the specification as it is now')
            fresh = _redrive(module, events) if rp.get('events_complete', True) else None
            if fresh is not None:
                rj = validate_traces(chk, module, fresh, f'replay of {p.name} on the current tree', shards=1)
                for r in rj:
                    print(f'current tree, same calls: rejected at line {r.line}, clause "{r.clause}"')
                if not rj:
                    print('current tree, same calls: accepted')
                    return 0
                print(f'VIOLATION property={pid} replay={path}')
                return 1
            if rejects:
                print(f'VIOLATION property={pid} replay={path}')
                return 1
            return 0
    # everything else: the check itself, same seed and tier
    env = dict(os.environ)
    env['VERIF_SEED'] = str(rec.get('seed', 0))
    env['VERIF_EVIDENCE_DIR'] = str(VERIF / '.work' / f'replay-{os.getpid()}')
    pr = subprocess.run([str(VERIF / 'bin' / 'check'), pid, '--tier', rec.get('tier', 'quick')],
                        env=env, stdout=subprocess.PIPE, stderr=subprocess.STDOUT, text=True)
    import shutil
    shutil.rmtree(env['VERIF_EVIDENCE_DIR'], ignore_errors=True)
    if pr.returncode == 2:
        raise MachineryError(f'the check failed to run:\n{pr.stdout[-2000:]}')
    same = [l for l in pr.stdout.splitlines() if l.strip().startswith(str(rec.get('key')) + ':')]
    for l in pr.stdout.splitlines():
        if 'VIOLATION' in l or l.startswith('  '):
            print(l[:400])
    if same:
        print(f'VIOLATION property={pid} replay={path}')
        return 1
    print('not reproduced with the recorded seed and tier on the current tree')
    return 0
