"""Running TLC (and SANY / pcal / tlapm) from the harness.

All scratch output goes to a per-run directory under /verif/.work which is
removed when the run ends.  Nothing is written into /verif/spec.
"""
from __future__ import annotations

import atexit
import json
import os
import re
import shutil
import subprocess
import tempfile
import threading
import time
from dataclasses import dataclass, field
from pathlib import Path
from typing import Dict, Iterable, List, Optional, Sequence

VERIF = Path(__file__).resolve().parent.parent
SPEC = VERIF / 'spec'
WORK_ROOT = VERIF / '.work'
JAR = '/opt/veriftools/tla/tla2tools.jar'
CP = JAR + ':/opt/veriftools/tla/CommunityModules-deps.jar'
TLAPS_LIB = '/opt/veriftools/tlapm/lib/tlapm/stdlib'

_workdir: Optional[Path] = None


class MachineryError(Exception):
    """TLC crashed, the spec did not parse, output could not be read ..."""


def workdir() -> Path:
    """The scratch directory of this process (created lazily)."""
    global _workdir
    if _workdir is None:
        WORK_ROOT.mkdir(exist_ok=True)
        _workdir = Path(tempfile.mkdtemp(prefix=f'run{os.getpid()}-',
                                         dir=WORK_ROOT))
        atexit.register(_cleanup)
    return _workdir


def _cleanup() -> None:
    if _workdir is not None and os.environ.get('VERIF_KEEP_WORK') != '1':
        shutil.rmtree(_workdir, ignore_errors=True)


_fresh_lock = threading.Lock()
_fresh_n = 0


def fresh(name: str) -> Path:
    """A fresh sub directory / file name inside the work directory."""
    global _fresh_n
    with _fresh_lock:
        base = workdir()
        _fresh_n += 1
        return base / f'{name}.{_fresh_n}'


@dataclass
class TlcResult:
    rc: int
    out: str
    generated: int = 0          # "states generated" = transitions explored
    distinct: int = 0           # distinct states
    depth: int = 0
    wall_s: float = 0.0
    json_lines: List[object] = field(default_factory=list)
    tuples: List[str] = field(default_factory=list)   # raw PrintT lines
    violated: Optional[str] = None      # name of violated invariant/property
    error_text: str = ''                # TLC's error section (incl. trace)
    cmd: str = ''

    @property
    def ok(self) -> bool:
        return self.rc == 0 and self.violated is None


_RE_STATES = re.compile(
    r'(\d+) states generated, (\d+) distinct states found')
_RE_DEPTH = re.compile(r'depth of the complete state graph search is (\d+)')
_RE_INV = re.compile(r'Invariant (\S+) is violated')
_RE_PROP = re.compile(r'(?:Action property|Temporal properties?|property) '
                      r'(\S+)? ?(?:is|were) violated')


def cfg_text(specification: Optional[str] = None,
             init: Optional[str] = None, next_: Optional[str] = None,
             constants: Optional[Dict[str, str]] = None,
             invariants: Sequence[str] = (),
             properties: Sequence[str] = (),
             constraints: Sequence[str] = (),
             action_constraints: Sequence[str] = (),
             view: Optional[str] = None,
             postcondition: Optional[str] = None,
             deadlock: bool = False,
             symmetry: Optional[str] = None) -> str:
    """Builds the text of a TLC configuration file."""
    lines: List[str] = []
    if specification:
        lines.append(f'SPECIFICATION {specification}')
    else:
        lines.append(f'INIT {init}')
        lines.append(f'NEXT {next_}')
    if constants:
        lines.append('CONSTANTS')
        for k, v in constants.items():
            lines.append(f'  {k} = {v}')
    for i in invariants:
        lines.append(f'INVARIANT {i}')
    for p in properties:
        lines.append(f'PROPERTY {p}')
    for c in constraints:
        lines.append(f'CONSTRAINT {c}')
    for c in action_constraints:
        lines.append(f'ACTION_CONSTRAINT {c}')
    if view:
        lines.append(f'VIEW {view}')
    if symmetry:
        lines.append(f'SYMMETRY {symmetry}')
    if postcondition:
        lines.append(f'POSTCONDITION {postcondition}')
    lines.append(f'CHECK_DEADLOCK {"TRUE" if deadlock else "FALSE"}')
    return '\n'.join(lines) + '\n'


def tla_set(xs: Iterable) -> str:
    return '{' + ', '.join(tla_value(x) for x in xs) + '}'


def tla_value(x) -> str:
    if isinstance(x, bool):
        return 'TRUE' if x else 'FALSE'
    if isinstance(x, int):
        return str(x)
    if isinstance(x, str):
        return '"' + x.replace('\\', '\\\\').replace('"', '\\"') + '"'
    if isinstance(x, (list, tuple)):
        return '<<' + ', '.join(tla_value(v) for v in x) + '>>'
    if isinstance(x, (set, frozenset)):
        return tla_set(sorted(x))
    raise TypeError(x)


def run_tlc(module: str,
            cfg: str,
            *,
            workers: int = 16,
            simulate: Optional[str] = None,
            depth: Optional[int] = None,
            seed: Optional[int] = None,
            env: Optional[Dict[str, str]] = None,
            timeout: int = 3600,
            heap: str = '8g',
            coverage: bool = False,
            dfs_queue: bool = False,
            long_run: bool = False,
            extra: Sequence[str] = (),
            name: Optional[str] = None,
            spec_dir: Optional[Path] = None) -> TlcResult:
    """Runs TLC on spec/<module>.tla with the given configuration text.

    Lines that TLC prints for ``PrintT("..json..")`` are decoded into
    ``json_lines``; other PrintT output lines starting with ``<<`` go to
    ``tuples``.
    """
    name = name or module
    d = fresh(name)
    d.mkdir(parents=True)
    cfg_path = d / f'{module}.cfg'
    cfg_path.write_text(cfg)
    spec_dir = spec_dir or SPEC
    gc = ['-XX:+UseSerialGC'] if workers == 1 else \
        ['-XX:+UseParallelGC', f'-XX:ParallelGCThreads={min(8, workers)}']
    # without ActiveProcessorCount every JVM sizes its JIT/GC pools for 16
    # cores; 16 concurrent trace validations then spend their time in the
    # kernel (measured: 10 s vs 3.6 s for 8 JVMs)
    java = ['java'] + gc + [f'-Xmx{heap}', '-Xms256m', '-Xss64m',
                            f'-XX:ActiveProcessorCount={max(2, workers)}',
                            f'-DTLA-Library={SPEC}:{TLAPS_LIB}',
                            # TLC / SANY scratch files go to the run's own work
                            # directory (removed at exit), not to /tmp
                            f'-Djava.io.tmpdir={d}']
    if workers == 1 and not long_run:
        # short single-threaded runs (trace validation, exports) are
        # dominated by JIT warm-up: C1 only halves their CPU time
        java.append('-XX:TieredStopAtLevel=1')
    if dfs_queue:
        java.append('-Dtlc2.tool.queue.IStateQueue=StateDeque')
    cmd = java + ['-cp', CP, 'tlc2.TLC',
                  '-workers', str(workers),
                  '-metadir', str(d / 'meta'),
                  '-noGenerateSpecTE',
                  '-config', str(cfg_path)]
    if simulate is not None:
        cmd += ['-simulate', simulate]
    if depth is not None:
        cmd += ['-depth', str(depth)]
    if seed is not None:
        cmd += ['-seed', str(seed)]
    if coverage:
        cmd += ['-coverage', '1']
    cmd += list(extra)
    cmd.append(str(spec_dir / f'{module}.tla'))
    e = dict(os.environ)
    e.pop('JAVA_TOOL_OPTIONS', None)
    if env:
        e.update(env)
    t0 = time.time()
    try:
        p = subprocess.run(cmd, cwd=str(d), env=e, stdout=subprocess.PIPE,
                           stderr=subprocess.STDOUT, timeout=timeout,
                           text=True, errors='replace')
        out, rc = p.stdout, p.returncode
    except subprocess.TimeoutExpired as ex:
        out = (ex.stdout or b'')
        if isinstance(out, bytes):
            out = out.decode('utf-8', 'replace')
        rc = 124
    res = TlcResult(rc=rc, out=out, wall_s=time.time() - t0,
                    cmd=' '.join(cmd))
    _parse_output(res)
    (d / 'tlc.out').write_text(out)
    shutil.rmtree(d / 'meta', ignore_errors=True)
    return res


def _parse_output(res: TlcResult) -> None:
    for line in res.out.splitlines():
        if line.startswith('"') and line.endswith('"') and len(line) > 2 \
                and line[1] in '{[':
            try:
                res.json_lines.append(json.loads(json.loads(line)))
                continue
            except ValueError:
                pass
        if line.startswith('<<'):
            res.tuples.append(line)
    for m in _RE_STATES.finditer(res.out):
        res.generated, res.distinct = int(m.group(1)), int(m.group(2))
    if res.generated == 0:
        ms = re.search(r'The number of states generated: (\d+)', res.out) or \
            re.search(r'Progress: (\d+) states checked', res.out)
        if ms:                    # simulation mode
            res.generated = int(ms.group(1))
    m = _RE_DEPTH.search(res.out)
    if m:
        res.depth = int(m.group(1))
    m = _RE_INV.search(res.out) or \
        re.search(r'The invariant of (\S+) is equal to FALSE', res.out)
    if m:
        res.violated = m.group(1)
    else:
        m = re.search(r'Action property (\S+) is violated', res.out)
        if m:
            res.violated = m.group(1)
        elif re.search(r'Temporal propert(?:y|ies) .{0,200}?(?:was|were) violated', res.out):
            res.violated = 'temporal'
        elif 'Deadlock reached' in res.out:
            res.violated = 'deadlock'
        elif re.search(r'The postcondition \S* ?(?:has been|is) (?:violated|false)',
                       res.out) or 'Postcondition' in res.out and 'violated' in res.out:
            res.violated = 'postcondition'
    if res.violated or res.rc != 0:
        i = res.out.find('Error:')
        res.error_text = res.out[i:] if i >= 0 else res.out[-4000:]


def require_clean(res: TlcResult, what: str) -> None:
    """Raises MachineryError unless TLC ran to completion without errors
    that are not property violations (parse errors, crashes, time-outs)."""
    if res.rc == 124:
        raise MachineryError(f'{what}: TLC timed out\n{res.cmd}')
    if res.violated is None and res.rc != 0:
        i = res.out.find('Error:')
        msg = res.out[i:i + 3000] if i >= 0 else res.out[-3000:]
        raise MachineryError(f'{what}: TLC failed rc={res.rc}\n{res.cmd}\n'
                             f'{msg}')


def sany(module: str) -> None:
    p = subprocess.run(['java', '-cp', CP, 'tla2sany.SANY',
                        str(SPEC / f'{module}.tla')], cwd=str(SPEC),
                       stdout=subprocess.PIPE, stderr=subprocess.STDOUT,
                       text=True)
    if p.returncode != 0 or 'Semantic errors' in p.stdout or \
            'Parse Error' in p.stdout or '*** Errors' in p.stdout:
        raise MachineryError(f'SANY {module}: {p.stdout[-2000:]}')


def run_apalache(module: str, init: str, inv: str, length: int, timeout: int = 1200) -> dict:
    """apalache-mc check --init --inv --length on spec/<module>.tla (symbolic,
    unbounded data).  Returns {'ok': bool, 'outcome': str, 'wall_s': float}."""
    d = fresh('apalache')
    d.mkdir(parents=True)
    shutil.copy(SPEC / f'{module}.tla', d / f'{module}.tla')
    t0 = time.time()
    cmd = ['apalache-mc', 'check', f'--init={init}', f'--inv={inv}', f'--length={length}',
           f'--out-dir={d / "out"}', f'{module}.tla']
    try:
        p = subprocess.run(cmd, cwd=str(d), stdout=subprocess.PIPE, stderr=subprocess.STDOUT,
                           text=True, timeout=timeout)
        out = p.stdout
    except (OSError, subprocess.TimeoutExpired) as ex:
        raise MachineryError(f'apalache could not be run: {ex}')
    m = re.search(r'The outcome is: (\w+)', out)
    shutil.rmtree(d, ignore_errors=True)
    if not m:
        raise MachineryError(f'apalache output not understood:\n{out[-1500:]}')
    return {'ok': m.group(1) == 'NoError', 'outcome': m.group(1), 'init': init, 'inv': inv,
            'length': length, 'wall_s': round(time.time() - t0, 1)}
