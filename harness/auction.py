"""C01, C02, C03: the auction (BiddingPhase) against Auction.tla / AuctionLaw.tla."""
from __future__ import annotations

import copy
import pickle
import json
from typing import Any, Dict, List, Optional, Sequence, Tuple

from . import tlc
from .core import (Check, MachineryError, NCPU, design_check, pmap,
                   report_rejects, rng, seed, validate_traces)

PASS, DBL, RDBL, NOCALL, NOSEAT = 35, 36, 37, 38, 4


def _imports():
    from bridge_env import Bid, BiddingPhase, BiddingPhaseState, Player, Vul
    return Bid, BiddingPhase, BiddingPhaseState, Player, Vul


# --------------------------------------------------------------------------
# projection of the real object onto the specification's state
# --------------------------------------------------------------------------
def project_contract(c) -> Dict[str, Any]:
    if c is None:
        return {'none': True}
    try:
        return {'bid': NOCALL if c.is_passed_out() else c.final_bid.idx,
                'x': bool(c.x), 'xx': bool(c.xx), 'vul': c.vul.value - 1,
                'decl': NOSEAT if c.declarer is None else c.declarer.value - 1}
    except Exception as e:  # noqa
        return {'error': repr(e)}


def project(bp) -> Dict[str, Any]:
    Bid, BiddingPhase, BiddingPhaseState, Player, Vul = _imports()
    av = list(bp.available_bid)
    try:
        contract = project_contract(bp.contract())
    except Exception as e:  # noqa
        contract = {'error': repr(e)}
    return {
        'active': NOSEAT if bp.active_player is None else bp.active_player.value - 1,
        'slots_ok': len(av) == 38 and all(v in (0, 1) for v in av),
        'avail': [i for i, v in enumerate(av) if v == 1],
        'hist': [b.idx for b in bp.bid_history],
        'perseat': [[b.idx for b in bp.players_bid_history[p]] for p in Player],
        'done': bool(bp.has_done()),
        'contract': contract,
    }


def take(bp, call: int) -> str:
    Bid, BiddingPhase, BiddingPhaseState, Player, Vul = _imports()
    try:
        r = bp.take_bid(Bid.int_to_bid(call))
    except Exception:  # noqa
        return 'raises'
    if r is BiddingPhaseState.ILLEGAL:
        return 'illegal'
    if r is BiddingPhaseState.ONGOING:
        return 'ongoing'
    if r is BiddingPhaseState.FINISHED:
        return 'finished'
    return f'unknown:{r!r}'


def new_events(tid, dealer: int, vul: int):
    Bid, BiddingPhase, BiddingPhaseState, Player, Vul = _imports()
    bp = BiddingPhase(dealer=Player(dealer + 1), vul=Vul(vul + 1))
    e = {'tid': tid, 'ev': 'new', 'dealer': dealer, 'vul': vul, 'res': 'new'}
    e.update(project(bp))
    return bp, e


def step_event(tid, bp, call: int, fork: bool = False) -> Dict[str, Any]:
    """Performs take_bid(call) on bp (or on a deep copy when fork) and
    returns the event.  Refused calls that left the projection unchanged are
    logged compactly (same=True)."""
    before = project(bp)
    target = (copy.deepcopy(bp) if call % 2 else pickle.loads(pickle.dumps(bp))) if fork else bp
    res = take(target, call)
    after = project(target)
    e: Dict[str, Any] = {'tid': tid, 'ev': 'fork' if fork else 'take',
                         'call': call, 'res': res}
    if res in ('illegal', 'raises') and after == before:
        e['same'] = True
    else:
        e.update(after)
    if fork and project(bp) != before:
        # deep copy is not independent of the original: record as a changed
        # state of the original so that the next event is rejected
        e['res'] = 'fork-changed-original'
    return e


def history_trace(tid, dealer: int, vul: int, hist: Sequence[int], *,
                  offer_all_at_end: bool = False,
                  offer_set: Optional[Sequence[int]] = None,
                  illegal_at_each_prefix: bool = False,
                  after_end: bool = True) -> List[Dict[str, Any]]:
    """Drives a fresh BiddingPhase through `hist`."""
    bp, e = new_events(tid, dealer, vul)
    evs = [e]
    if e['hist'] or any(e['perseat']):
        # a fresh object that already has calls recorded: the trace spec
        # rejects this event; driving on would only inflate the trace
        return evs

    def illegal_offers():
        av = list(bp.available_bid)
        for c in range(38):
            if not (c < len(av) and av[c] == 1):
                evs.append(step_event(tid, bp, c))

    # the auction may be carried on by a copy of the object (a snapshot that
    # is restored, an object sent to another process): every 3rd history is
    # continued on a deep copy or on a pickle round trip from some point on
    hsum = sum(map(ord, str(tid))) + len(hist)
    swap_at = (hsum // 3) % (len(hist) + 1) if hsum % 3 == 0 and len(hist) > 0 else -1
    for k_, c in enumerate(hist):
        if k_ == swap_at:
            try:
                bp = copy.deepcopy(bp) if hsum % 2 else pickle.loads(pickle.dumps(bp))
            except Exception as ex:  # noqa
                evs.append({'tid': tid, 'ev': 'take', 'call': c,
                            'res': f'copy-failed:{type(ex).__name__}', 'same': True})
                return evs
        if illegal_at_each_prefix and not bp.has_done():
            illegal_offers()
        evs.append(step_event(tid, bp, c))
    if offer_all_at_end and not bp.has_done():
        av = list(bp.available_bid)
        for c in (range(38) if offer_set is None else offer_set):
            legal = c < len(av) and av[c] == 1
            evs.append(step_event(tid, bp, c, fork=legal))
    if after_end and bp.has_done():
        for c in range(38):
            evs.append(step_event(tid, bp, c))
    return evs


# --------------------------------------------------------------------------
# sources of histories
# --------------------------------------------------------------------------
INVS_C01 = ['TypeOK', 'LegalIsLaw', 'AvailShape']
PROPS_C01 = ['RefusedUnchanged', 'AcceptedIffLegal']
INVS_C02 = ['TypeOK', 'TurnIsLaw', 'PerSeatIsShare', 'NeverLater']
PROPS_C02 = ['AfterEndRefused', 'FinishedIffEnded']
INVS_C03 = ['TypeOK', 'ContractIsLaw', 'NoContractBeforeEnd']


def auction_cfg(bids, dealers, vuls, invs=(), props=(), view=None,
                spec='Spec') -> str:
    return tlc.cfg_text(specification=spec,
                        constants={'OfferBids': tlc.tla_set(bids),
                                   'Dealers': tlc.tla_set(dealers),
                                   'VulSet': tlc.tla_set(vuls)},
                        invariants=invs, properties=props, view=view)


def export_quotient(chk: Check, bids, dealers, vuls, view: str,
                    what: str) -> List[Tuple[int, int, List[int]]]:
    """One canonical history per state of the quotient model (TLC VIEW)."""
    cfg = auction_cfg(bids, dealers, vuls, invs=['ExportHist'], view=view)
    res = tlc.run_tlc('Auction', cfg, workers=1, name='auction-quotient')
    tlc.require_clean(res, what)
    if res.violated:
        raise MachineryError(f'{what}: {res.error_text[:2000]}')
    chk.add_tlc(res, what, f'bids={len(list(bids))} dealers={list(dealers)} '
                           f'view={view}')
    out = [(j['d'], j['v'], j['h']) for j in res.json_lines]
    if len(out) != res.distinct:
        raise MachineryError(f'{what}: exported {len(out)} histories for '
                             f'{res.distinct} states')
    return out


def export_simulated(chk: Check, n: int, spec: str, what: str,
                     sd: int) -> List[Tuple[int, int, List[int]]]:
    cfg = auction_cfg(range(35), range(4), range(4), invs=['ExportEnded'],
                      spec=spec)
    res = tlc.run_tlc('Auction', cfg, workers=1, simulate=f'num={n}',
                      depth=400, seed=sd, name='auction-sim')
    tlc.require_clean(res, what)
    if res.violated:
        raise MachineryError(f'{what}: {res.error_text[:2000]}')
    chk.add_tlc(res, what, f'simulate num={n} spec={spec}')
    return [(j['d'], j['v'], j['h']) for j in res.json_lines]


def random_history(r, style: str) -> Tuple[int, int, List[int]]:
    """Seeded legal auctions produced by the harness with the REAL object
    as the source of legality (so that mutated code is driven along what it
    itself believes legal - the trace spec decides)."""
    Bid, BiddingPhase, BiddingPhaseState, Player, Vul = _imports()
    d, v = r.randrange(4), r.randrange(4)
    bp = BiddingPhase(dealer=Player(d + 1), vul=Vul(v + 1))
    hist: List[int] = []
    while not bp.has_done() and len(hist) < 330:
        av = [i for i, x in enumerate(bp.available_bid) if x == 1]
        if not av:
            break
        bids = [c for c in av if c < 35]
        others = [c for c in av if c >= 35]
        if style == 'slow':
            pick = r.random()
            if DBL in av and pick < 0.5:
                c = DBL
            elif RDBL in av and pick < 0.7:
                c = RDBL
            elif bids and pick < 0.55 + 0.4 * (len(hist) % 3 == 0):
                c = min(bids)
            else:
                c = PASS
        elif style == 'passy':
            if r.random() < 0.62:
                c = PASS
            elif others and r.random() < 0.5:
                c = r.choice(others)
            elif bids:
                c = bids[min(len(bids) - 1, int(r.expovariate(0.5)))]
            else:
                c = PASS
        elif style == 'doubly':
            if DBL in av and r.random() < 0.7:
                c = DBL
            elif RDBL in av and r.random() < 0.7:
                c = RDBL
            elif bids and r.random() < 0.35:
                c = bids[min(len(bids) - 1, int(r.expovariate(0.7)))]
            else:
                c = PASS
        elif style == 'samestrain':
            # both partners and both sides naming the same strains
            strain = r.choice([0, 1, 2, 3, 4])
            cand = [c for c in bids if c % 5 in (strain, (strain + 1) % 5)]
            if cand and r.random() < 0.5:
                c = cand[0] if r.random() < 0.7 else r.choice(cand[:3])
            elif others and r.random() < 0.4:
                c = r.choice(others)
            else:
                c = PASS
        else:
            c = r.choice(av)
        if take(bp, c) not in ('ongoing', 'finished'):
            break
        hist.append(c)
    return d, v, hist


def longest_auction(d: int) -> List[int]:
    """The 319-call auction: P P P, then for each bid: bid P P X P P XX P P,
    finally P."""
    h = [PASS] * 3
    for b in range(35):
        h += [b, PASS, PASS, DBL, PASS, PASS, RDBL, PASS, PASS]
    h.append(PASS)
    return h


# --------------------------------------------------------------------------
# the checks
# --------------------------------------------------------------------------
_CLAUSES = {
    'C01': {'avail', 'avail-vector-shape'},
    'C02': {'active', 'hist', 'perseat', 'done'},
    'C03': {'contract'},
}


def owners(clause: str) -> set:
    """Which properties a reject clause speaks about."""
    m = dict(kv.split('=', 1) for kv in clause.split(':') if '=' in kv)
    exp, got = m.get('exp', ''), m.get('got', '')
    fails = set(m.get('fail', '').split(','))
    if clause.startswith('new:'):
        fails = set(clause[4:].split(','))
    own = set()
    if exp == 'illegal' or got == 'illegal':
        own.add('C01')              # accepted-iff-legal / refused unchanged
    if exp == 'raises' or got == 'raises' or (
            'result' in fails and 'finished' in (exp, got)):
        own.add('C02')
    if 'result' in fails and exp in ('ongoing', 'finished') and got not in ('ongoing', 'finished'):
        own.add('C01')              # a legal call (a pass always is) was not accepted
    for pid, cl in _CLAUSES.items():
        if fails & cl:
            own.add(pid)
    if got.startswith('fork-changed'):
        own.add('C01')
    return own or {'C01', 'C02', 'C03'}


def pair_trace(tid, d: int, v: int, h: Sequence[int], sd: int) -> List[Dict[str, Any]]:
    """Two auctions alive at the same time (the two tables of a match, a
    server and its clients in one process): A follows h, B follows h up to a
    point and then goes its own legal way; the calls are taken alternately.
    Each object is validated as its own trace: objects must not share state."""
    r = rng('pair', sd, tid)
    a, ea = new_events(f'{tid}A', d, v)
    b, eb = new_events(f'{tid}B', d, v)
    eva, evb = [ea], [eb]
    k = r.randrange(0, len(h) + 1)
    for i in range(len(h) + 6):
        if i < len(h) and not a.has_done():
            eva.append(step_event(f'{tid}A', a, h[i]))
        if not b.has_done():
            if i < k and i < len(h):
                c = h[i]
            else:
                av = [j for j, x in enumerate(b.available_bid) if x == 1]
                if not av:
                    break
                others = [x for x in av if x >= 36]
                c = r.choice(others) if others and r.random() < 0.6 else \
                    (PASS if r.random() < 0.5 else r.choice(av[:4]))
            evb.append(step_event(f'{tid}B', b, c))
            # what B did must not show in A (and vice versa): A is projected again
            if not a.has_done() and r.random() < 0.5:
                off = [j for j in range(38) if a.available_bid[j] != 1]
                if off:
                    eva.append(step_event(f'{tid}A', a, r.choice(off)))
    return eva + evb


def blind_trace(tid, d: int, v: int, h: Sequence[int], sd: int) -> List[Dict[str, Any]]:
    """The calls of h are taken WITHOUT looking at the object in between (no
    has_done(), active_player, contract(), available_bid ...): a caller that
    trusts the return values.  Refused calls are mixed in; after the end a few
    more calls follow at once.  Only the results are logged (blind events);
    the state is shown once, at the very end."""
    from bridge_env import Bid
    r = rng('blind', sd, tid)
    bp, e0 = new_events(tid, d, v)
    evs = [e0]
    seq: List[int] = []
    last = -1
    for c in h:
        if r.random() < 0.25:
            # a refusable call first: an insufficient bid, or a (re)double out of place
            seq.append(r.choice([x for x in (0, last, DBL, RDBL) if x >= 0]))
        seq.append(c)
        if c < 35:
            last = c
    seq += [r.choice([PASS, 0, 34, DBL, RDBL]) for _ in range(3)]       # after the end
    for c in seq:
        evs.append({'tid': tid, 'ev': 'take', 'call': c, 'res': take(bp, c), 'blind': True})
    # now look: the state is that of the accepted calls
    fin = step_event(tid, bp, PASS)
    evs.append(fin)
    return evs


def _trace_job(job):
    # every 5th history with DEBUG logging switched on (as the command lines of
    # server and client do): log statements are then evaluated and formatted
    if sum(map(ord, str(job[1]))) % 5 == 1:
        from .baton import log_debug_off, log_debug_on
        state = log_debug_on()
        try:
            return _trace_job2(job)
        finally:
            log_debug_off(state)
    return _trace_job2(job)


def _trace_job2(job):
    kind, tid, d, v, h = job
    if kind == 'blind':
        return blind_trace(tid, d, v, h, seed())
    if kind == 'pair':
        return pair_trace(tid, d, v, h, seed())
    if kind == 'walk':
        return history_trace(tid, d, v, h, offer_all_at_end=True)
    if isinstance(kind, tuple):      # ('walk', offered calls)
        return history_trace(tid, d, v, h, offer_all_at_end=True,
                             offer_set=kind[1], after_end=False)
    if kind == 'prefix':
        return history_trace(tid, d, v, h, illegal_at_each_prefix=True)
    if kind == 'noafter':
        return history_trace(tid, d, v, h, after_end=False)
    return history_trace(tid, d, v, h)


def run(pid: str, tier: str) -> int:
    chk = Check(pid, tier)
    quick = tier == 'quick'
    sd = seed()
    chk.rule = ('a case is one call offered to the real BiddingPhase in one '
                'state; distinct_nontrivial counts distinct (dealer, history, '
                'call) triples whose history contains at least one bid')
    chk.assumptions = [
        'the quotient walk assumes the real object behaves as a function of '
        'its fields (covered by the view); simulated and seeded traces do '
        'not rely on it',
        'TLC, SANY, the Json community module']

    # ---- 1. design check: code-shaped model against the law -------------
    invs = {'C01': INVS_C01, 'C02': INVS_C02, 'C03': INVS_C03}[pid]
    props = {'C01': PROPS_C01, 'C02': PROPS_C02, 'C03': []}[pid]
    if quick:
        ladders = [([0, 4, 5], range(4), [1])]
    else:
        ladders = [([0, 4, 5, 9], range(4), [2]),
                   ([1, 6, 11], range(4), [0, 3])]
    for bids, dealers, vuls in ladders:
        design_check(chk, 'Auction',
                     auction_cfg(bids, dealers, vuls, invs, props, view='StView'),
                     f'Auction exhaustive ladder {bids}',
                     constants=f'OfferBids={bids} Dealers=0..3 VulSet={list(vuls)}; '
                               f'every history to its natural end',
                     workers=8, timeout=3000)

    # ---- 2. spec -> code: TLC-generated histories -----------------------
    jobs: List[tuple] = []
    if pid in ('C01', 'C02'):
        dealers = [sd % 4] if quick else range(4)
        q = export_quotient(chk, range(35), dealers, [sd % 4], 'ControlView',
                            'quotient of the full 35-bid auction (control state)')
    else:
        if quick:
            bids = (0, 1, 5, 6)                # 2 levels x 2 strains
        else:
            bids = tuple(5 * l + s for l in range(7) for s in (0, 1))
        q = export_quotient(chk, bids, range(4), [sd % 4], 'ContractView',
                            f'quotient with first-to-name table, bids {bids}')
    for k, (d, v, h) in enumerate(q):
        jobs.append((('walk', tuple(bids) + (PASS, DBL, RDBL)) if pid == 'C03'
                     else 'walk', f'q{k}', d, v, h))
    if pid == 'C03':
        # every COMPLETE history of two-level same-strain ladders (and, in the
        # thorough tier, of a three-bid ladder) is replayed on the real object:
        # unlike the quotient walk this does not assume that the object is a
        # function of the specification's fields
        ladders2 = [[sd % 5, sd % 5 + 5]] if quick else \
            [[s_, s_ + 5] for s_ in range(5)] + [[0, 1, 5]]
        for lad in ladders2:
            cfg = auction_cfg(lad, range(4) if len(lad) == 2 else [sd % 4], [sd % 4],
                              invs=['ExportEnded'], view='StView')
            res = tlc.run_tlc('Auction', cfg, workers=1, name='auction-complete',
                              timeout=3000, long_run=True)
            tlc.require_clean(res, 'complete histories')
            if res.violated:
                raise MachineryError(res.error_text[:2000])
            chk.add_tlc(res, f'all complete histories of ladder {lad}')
            for k, j in enumerate(res.json_lines):
                jobs.append(('noafter', f'c{lad[0]}.{len(lad)}.{k}', j['d'], j['v'], j['h']))
    nsim = 150 if quick else 3000
    for spec in ('LegalSpec', 'SlowSpec'):
        sims = export_simulated(chk, nsim if spec == 'LegalSpec' else nsim // 5,
                                spec, f'simulated full-size auctions ({spec})', sd)
        for k, (d, v, h) in enumerate(sims):
            jobs.append(('prefix' if pid == 'C01' else 'plain',
                         f's{spec[0]}{k}', d, v, h))
    # ---- 3. code -> spec: seeded auctions driven by the real object -----
    r = rng('auction', pid)
    nrand = 300 if quick else 12000
    styles = ['uniform', 'slow', 'passy', 'doubly', 'samestrain']
    for k in range(nrand):
        d, v, h = random_history(r, styles[k % len(styles)])
        jobs.append(('prefix' if (pid == 'C01' or k % 3 == 0) else 'plain',
                     f'r{k}', d, v, h))
    # auctions alive at the same time
    for k in range(60 if quick else 3000):
        d, v, h = random_history(r, styles[k % len(styles)])
        jobs.append(('pair', f'p{k}', d, v, h))
    # callers that do not look at the object between their calls
    for k in range(120 if quick else 4000):
        d, v, h = random_history(r, styles[k % len(styles)])
        jobs.append(('blind', f'b{k}', d, v, h))
    for d in range(4):
        jobs.append(('prefix' if pid == 'C01' else 'plain', f'long{d}', d,
                     (d + sd) % 4, longest_auction(d)))
    # long auctions that end somewhere in the middle: the longest auction cut after
    # a bid / a double / a redouble, then closed by three passes (lengths around
    # every power of two up to 256 and a few more)
    full = longest_auction(0)
    cuts = sorted({c for c in range(4, len(full)) if full[c - 1] != PASS
                   and any(abs(c + 3 - n) <= 4 for n in (16, 32, 64, 100, 128, 130, 200, 255, 256, 258, 300))})
    for j, c in enumerate(cuts):
        jobs.append(('plain', f'mid{j}', (j + sd) % 4, (j // 4) % 4, full[:c] + [PASS] * 3))
    # the openings C02 names explicitly
    k = 0
    for d in range(4):
        for h in ([PASS] * 4, [PASS] * 3 + [0], [PASS] * 3 + [0, PASS, PASS, PASS],
                  [0, PASS, PASS, DBL, PASS, PASS, PASS],
                  [0, PASS, PASS, DBL, PASS, PASS, RDBL, PASS, PASS, PASS],
                  [0, DBL, RDBL, PASS, PASS, PASS], [PASS, PASS, 3, PASS, PASS, 7],
                  [34, PASS, PASS, PASS], [0, 1, 2, 3, 4, 5]):
            jobs.append(('prefix', f'n{k}', d, k % 4, h))
            k += 1

    # two auctions driven by two threads at the same time: the first use of the
    # class in the process is suspended at code locations of its take_bid /
    # construction while another auction runs (process-wide tables, caches)
    from . import race

    def make_calls():
        def mk(tag, d, v, h):
            def call():
                return history_trace(tag, d, v, h, after_end=True)
            return call
        return (mk('ra', 1, 2, [0, DBL, RDBL, PASS, 7, PASS, PASS, DBL, PASS, PASS, PASS]),
                mk('rb', 3, 1, [PASS, 4, PASS, 9, DBL, PASS, PASS, RDBL, 34, PASS, DBL, PASS, PASS, PASS]))
    race_events = race.run_race(chk, 'two auctions', make_calls, 160)

    # the same library in an interpreter that strips assert statements (-O)
    from .core import run_optimized
    ojobs = [(k_, 'O' + t_, d_, v_, h_) for (k_, t_, d_, v_, h_) in jobs
             if isinstance(k_, str) and (t_.startswith('n') or t_.startswith('long')
                                         or (t_.startswith('r') and len(t_) < (3 if quick else 4)))]
    otraces = run_optimized('harness.auction', '_trace_job', ojobs)
    chk.extra['histories_under_python_O'] = len(ojobs)
    jobs = jobs + ojobs

    traces = pmap(_trace_job, jobs[:len(jobs) - len(ojobs)], chunk=64) + otraces
    events: List[Dict[str, Any]] = list(race_events)
    chk.evaluations += sum(1 for e in race_events if e['ev'] != 'new')
    for (kind, tid, d, v, h), evs in zip(jobs, traces):
        events.extend(evs)
        chk.evaluations += sum(1 for e in evs if e['ev'] != 'new')
    # the repository's own tests, run under a recording plugin: every invariant
    # is evaluated at every step they take
    from .core import repo_test_events
    rt = [e for e in repo_test_events(['tests']) if e.get('src') == 'auction']
    for e in rt:
        e.pop('src', None)
    chk.extra['repo_test_events'] = len(rt)
    chk.evaluations += sum(1 for e in rt if e['ev'] != 'new')
    events.extend(rt)
    # distinct (dealer, history-prefix, call) with a bid in the history
    seen = set()
    cur: Optional[list] = None
    for e in events:
        if e['ev'] == 'new':
            cur = [e['dealer'], []]
            continue
        key = (cur[0], tuple(cur[1]), e['call'])
        if any(c < 35 for c in cur[1]):
            seen.add(hash(key))
        if e['ev'] == 'take' and e['res'] in ('ongoing', 'finished'):
            cur[1] = cur[1] + [e['call']]
    chk.distinct = seen
    for j in jobs[:2] + jobs[len(q):len(q) + 2] + jobs[-2:]:
        chk.sample({'source': j[0] if isinstance(j[0], str) else j[0][0], 'dealer': j[2], 'vul': j[3], 'history': j[4]})
    chk.extra['events'] = len(events)
    chk.extra['histories'] = len(jobs)

    rejects = validate_traces(chk, 'AuctionTrace', events,
                              'real BiddingPhase vs Auction!Step')
    mine = [x for x in rejects if pid in owners(x.clause)]
    others = [x for x in rejects if pid not in owners(x.clause)]
    if others:
        chk.note(f'{len(others)} rejected traces concern other auction '
                 f'properties only ({sorted({p for x in others for p in owners(x.clause)})}); '
                 f'they are reported by those checks')
    report_rejects(chk, mine, 'auction',
                   key_of=lambda x: f'auction:{x.clause}')
    return chk.finish()
