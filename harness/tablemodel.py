"""Design checks of the concurrent table-manager model (spec/Table.tla):
all interleavings of the main thread and the per-connection threads, for
configurations generated here (requests, boards, decision scripts)."""
from __future__ import annotations

import itertools
from pathlib import Path
from typing import Any, Dict, List, Optional, Sequence, Tuple

from . import tlc
from .core import Check, MachineryError, design_check, rng, seed

SEATN = 4


def _deal_literal(deal: Sequence[Sequence[int]]) -> str:
    return 'SeqDeal(<<' + ', '.join(tlc.tla_set(sorted(h)) for h in deal) + '>>)'


def small_board(r, ntricks: int, dealer: int, vul: int):
    """A board with `ntricks` cards per hand."""
    pack = r.sample(range(52), 4 * ntricks)
    deal = [sorted(pack[ntricks * s:ntricks * (s + 1)]) for s in range(4)]
    return deal, dealer, vul


def script_for(deal, dealer: int, vul: int, calls: List[int], ntricks: int, r) -> Dict[str, Any]:
    """A valid decision script: the given calls and, if the board is played,
    cards chosen with the real library (any held card)."""
    from bridge_env import Bid, BiddingPhase, Player, Vul
    from bridge_env.playing_phase import PlayingPhaseWithHands
    from .play import card, cnum, make_hands
    bp = BiddingPhase(dealer=Player(dealer + 1), vul=Vul(vul + 1))
    for c in calls:
        bp.take_bid(Bid.int_to_bid(c))
    assert bp.has_done(), 'script auction is not complete'
    contract = bp.contract()
    cards: List[int] = []
    if not contract.is_passed_out():
        env = PlayingPhaseWithHands(contract, make_hands(deal))
        for _ in range(4 * ntricks):
            p = env.active_player
            c = r.choice(sorted(cnum(x) for x in env.hands[p]))
            env.play_card_by_player(card(c), p)
            cards.append(c)
    return {'calls': calls, 'cards': cards}


def mc_module(name: str, requests, boards, scripts, fault=None) -> Path:
    d = tlc.fresh('mctable')
    d.mkdir(parents=True)
    rq = ', '.join(f'[seat |-> {s}, team |-> {tlc.tla_value(t)}, version |-> {v}]'
                   for (s, t, v) in requests)
    bd = ', '.join(f'[deal |-> {_deal_literal(dl)}, dealer |-> {de}, vul |-> {vu}]'
                   for (dl, de, vu) in boards)
    sc = ', '.join(f'[calls |-> {tlc.tla_value(s["calls"])}, cards |-> {tlc.tla_value(s["cards"])}]'
                   for s in scripts)
    ft = 'NoFault' if fault is None else \
        f'[board |-> {fault[0]}, phase |-> "{fault[1]}", index |-> {fault[2]}]'
    (d / f'{name}.tla').write_text(
        f'---- MODULE {name} ----\nEXTENDS Table\n'
        'SeqDeal(q) == [s \\in Seats |-> q[s + 1]]\n'
        f'MCRequests == <<{rq}>>\nMCBoards == <<{bd}>>\nMCScript == <<{sc}>>\n'
        f'MCFault == {ft}\n====\n')
    return d


def table_cfg(ntricks: int, sync='barrier', close=True, interrupts=False,
              invs=(), props=(), deadlock=True, join='wait', end='after-close',
              relay='main') -> str:
    txt = tlc.cfg_text(specification='Spec',
                       constants={'Requests': '<- MCRequests', 'Boards': '<- MCBoards',
                                  'Script': '<- MCScript', 'NTricksM': str(ntricks),
                                  'SyncImpl': f'"{sync}"',
                                  'CloseOnAbort': 'TRUE' if close else 'FALSE',
                                  'Fault': '<- MCFault',
                                  'Interrupts': 'TRUE' if interrupts else 'FALSE',
                                  'JoinImpl': f'"{join}"',
                                  'EndAnnounce': f'"{end}"',
                                  'RelayImpl': f'"{relay}"',
                                  'defaultInitValue': '0'},
                       invariants=invs, properties=props, deadlock=deadlock)
    for k in ('Requests', 'Boards', 'Script', 'Fault'):
        txt = txt.replace(f'{k} = <- ', f'{k} <- ')
    return txt


GOOD = [(0, 'ns', 18), (1, 'ew', 18), (2, 'ns', 18), (3, 'ew', 18)]
SAFETY = ['Completed', 'LogPrefix', 'LogCorrect', 'SentComplete', 'AbortLog', 'BarrierShape',
          'RunReturnsAfterThreads', 'DeclaredOverImpliesLogClosed',
          'RejectedGetOneError', 'SeatedAsSpecified', 'PartnersShareTeam']


def run_model(chk: Check, what: str, requests, boards, scripts, ntricks, *, fault=None,
              sync='barrier', close=True, interrupts=False, invs=SAFETY,
              props=('TableOnlyGrows',), simulate: Optional[str] = None, depth=None,
              expect: Optional[str] = None, deadlock=True, workers=12, timeout=3000, join='wait',
              end='after-close', relay='main'):
    d = mc_module('MCTable', requests, boards, scripts, fault)
    cfg = table_cfg(ntricks, sync, close, interrupts, invs, props, deadlock, join, end, relay)
    kw: Dict[str, Any] = {}
    if simulate:
        kw = dict(simulate=simulate, depth=depth or 800, seed=seed() + 11)
    consts = (f'requests={requests} boards={len(boards)} calls={[s["calls"] for s in scripts]} '
              f'tricks={ntricks} sync={sync} closeOnAbort={close} fault={fault} '
              f'interrupts={interrupts}' + (f' simulate {simulate}' if simulate else ' exhaustive'))
    return design_check(chk, 'MCTable', cfg, what, constants=consts, workers=workers,
                        timeout=timeout, spec_dir=d, expect_violation=expect, **kw)


def design(chk: Check, pid: str, tier: str) -> None:
    quick = tier == 'quick'
    r = rng('tablemodel', pid)
    po = [35, 35, 35, 35]
    b0 = small_board(r, 1, 0, seed() % 4)
    weak = [0, 35, 35, 35]
    if pid == 'C09':
        # the primitives themselves (spec/PyThreading.tla), and the controlled
        # primitives of the baton against the real CPython objects
        pt = {'N': '5' if not quick else '4', 'G': '3'}
        design_check(chk, 'PyThreading',
                     tlc.cfg_text(specification='Spec', constants=pt,
                                  invariants=['BarrierSafety', 'BarrierSync', 'BarrierShape',
                                              'NoBarrierDeadlock'],
                                  properties=['BarrierTermination']),
                     'PyThreading: reusable Barrier, every interleaving', constants=str(pt), workers=4)
        design_check(chk, 'PyThreading',
                     tlc.cfg_text(specification='ESpec', constants={'N': '1', 'G': '1'},
                                  properties=['InsideWaiterPasses']),
                     'PyThreading: Event set-then-clear releases the waiter already inside wait()',
                     workers=2)
        design_check(chk, 'PyThreading',
                     tlc.cfg_text(specification='ESpec', constants={'N': '1', 'G': '1'},
                                  properties=['LateWaiterPasses']),
                     'PyThreading regression: a waiter arriving after clear() is lost',
                     expect_violation='temporal', workers=2)
        # unbounded number of generations (= boards): an inductive invariant of
        # the reusable barrier, discharged symbolically by Apalache
        steps = [('IndInit', 'IndInv', 1)] if quick else \
            [('Init', 'IndInv', 0), ('IndInit', 'IndInv', 1), ('IndInit', 'BarrierSafety', 0),
             ('IndInit', 'NoStuck', 0)]
        apa = [tlc.run_apalache('BarrierInd', i_, v_, n_) for (i_, v_, n_) in steps]
        chk.extra['apalache_barrier_inductive'] = apa
        for a in apa:
            if not a['ok']:
                chk.violation(f'model:BarrierInd:{a["inv"]}',
                              f'Apalache: {a["inv"]} from {a["init"]} at length {a["length"]}: {a["outcome"]}',
                              {'kind': 'apalache', **a})
        from . import selfcheck
        chk.extra['baton_selfcheck'] = selfcheck.run(seed())
        run_model(chk, 'Table: 4 seats, 1 passed-out board, every interleaving; no deadlock, '
                       'termination under weak fairness',
                  GOOD, [b0], [script_for(*b0, po, 1, r)], 1,
                  invs=['Completed', 'BarrierShape', 'RunReturnsAfterThreads'], props=['Termination_'])
        run_model(chk, 'Table regression: a bounded join at the end of run() lets run() return while '
                       'player threads are still alive',
                  GOOD, [b0], [script_for(*b0, po, 1, r)], 1, join='bounded',
                  invs=['RunReturnsAfterThreads'], props=[], expect='RunReturnsAfterThreads', workers=8)
        run_model(chk, 'Table regression: the hand-rolled flag barrier of the pinned tree deadlocks',
                  GOOD, [b0], [script_for(*b0, po, 1, r)], 1, sync='flags',
                  invs=['BarrierShape'], props=[], simulate='num=200000', depth=500,
                  expect='deadlock', workers=8)
        # every queue of the table manager has ONE producer (the main thread for the
        # queues to the seats, the seat's thread for the queue to main): with a second
        # producer the order of the items - and with it the session - depends on the
        # schedule
        run_model(chk, 'Table regression: the acting seat passes its call on to the other seats itself '
                       '(two producers on one queue): some schedule breaks the session',
                  GOOD, [b0], [script_for(*b0, po, 1, r)], 1, relay='seat',
                  invs=['Completed', 'SentPrefix'], props=[], expect='two-producers', workers=8)
        if not quick:
            b1 = small_board(r, 1, 1, 2)
            run_model(chk, 'Table: 4 seats, 1 board played (1C P P P, one trick), every interleaving',
                      GOOD, [b1], [script_for(*b1, [0, 35, 35, 35], 1, r)], 1,
                      invs=['Completed', 'BarrierShape'], props=['Termination_'], workers=16)
            b2 = small_board(r, 1, 2, 0)
            run_model(chk, 'Table: 2 boards (passed out, passed out), every interleaving',
                      GOOD, [b0, b2], [script_for(*b0, po, 1, r), script_for(*b2, po, 1, r)], 1,
                      invs=['Completed', 'BarrierShape'], props=['Termination_'], workers=16)
            b3 = small_board(r, 2, 3, 1)
            run_model(chk, 'Table: 2 boards (played 2 tricks, passed out), simulation',
                      GOOD, [b3, b0], [script_for(*b3, [35, 0, 35, 35, 35], 2, r),
                                       script_for(*b0, po, 1, r)], 2,
                      invs=['Completed', 'BarrierShape'], props=[], simulate='num=12', depth=1500,
                      workers=16)
    elif pid in ('C08', 'C10', 'C11'):
        invs = ['Completed', 'LogPrefix', 'LogCorrect', 'SentPrefix', 'SentComplete',
                'RunReturnsAfterThreads', 'DeclaredOverImpliesLogClosed']
        b1 = small_board(r, 1, seed() % 4, 1)
        if quick:
            run_model(chk, 'Table: log and per-connection streams equal the sequential meaning '
                           '(1 passed-out board, every interleaving)',
                      GOOD, [b0], [script_for(*b0, po, 1, r)], 1, invs=invs, props=[])
            if pid == 'C08':
                run_model(chk, 'Table regression: "End of session" queued before the log is closed',
                          GOOD, [b0], [script_for(*b0, po, 1, r)], 1, end='before-close',
                          invs=['DeclaredOverImpliesLogClosed'], props=[],
                          expect='DeclaredOverImpliesLogClosed', workers=8)
            run_model(chk, 'Table: the same on a played board (one trick), simulation',
                      GOOD, [b1], [script_for(*b1, [35, 1, 36, 35, 35, 35], 1, r)], 1,
                      invs=invs, props=[], simulate='num=4', depth=900, workers=8)
        else:
            run_model(chk, 'Table: log and streams = sequential meaning, played board '
                           '(1D X, one trick), every interleaving',
                      GOOD, [b1], [script_for(*b1, [35, 1, 36, 35, 35, 35], 1, r)], 1,
                      invs=invs, props=[], workers=16)
            b3 = small_board(r, 2, 3, 1)
            run_model(chk, 'Table: 2 boards (played 2 tricks, passed out), simulation',
                      GOOD, [b3, b0], [script_for(*b3, [35, 0, 35, 35, 35], 2, r),
                                       script_for(*b0, po, 1, r)], 2,
                      invs=['Completed', 'LogPrefix', 'LogCorrect', 'SentComplete'], props=[],
                      simulate='num=6', depth=1500, workers=16)
    elif pid == 'C13':
        invs = ['AbortLog', 'LogPrefix', 'BarrierShape']
        b2 = small_board(r, 1, 1, 0)
        two = [b0, b2]
        scr = [script_for(*b0, po, 1, r), script_for(*b2, [0, 35, 35, 35], 1, r)]
        faults = [(2, 'auction', 1), (2, 'play', 2), (1, 'auction', 3)]
        for f in (faults[:2] if quick else faults + [(2, 'auction', 4), (2, 'play', 1), (2, 'play', 4)]):
            run_model(chk, f'Table: offence at board {f[0]} {f[1]} #{f[2]}: closed log of the '
                           f'finished boards', GOOD, two, scr, 1, fault=f, invs=invs, props=[],
                      deadlock=False, simulate=None if not quick else 'num=10',
                      depth=900, workers=16)
        # one board, every interleaving (the abort comes early: small state space)
        one = script_for(*b0, weak, 1, r) if b0[1] == 0 else script_for(*b0, [35] * ((4 - b0[1]) % 4) + weak, 1, r)
        for f in ([(1, 'auction', 2)] if quick else [(1, 'auction', 1), (1, 'auction', 2), (1, 'play', 3)]):
            run_model(chk, f'Table: offence at board 1 {f[1]} #{f[2]}, every interleaving',
                      GOOD, [b0], [one], 1, fault=f, invs=invs, props=[], deadlock=False, workers=16)
        run_model(chk, 'Table: operator interrupt at any queue read of the main thread',
                  GOOD, two, scr, 1, interrupts=True, invs=invs, props=[], deadlock=False,
                  simulate='num=8' if quick else 'num=300', depth=900, workers=16)
        run_model(chk, 'Table regression: pinned abort path leaves the log open',
                  GOOD, two, scr, 1, fault=(2, 'auction', 1), close=False, invs=['AbortLog'],
                  props=[], deadlock=False, simulate='num=50000', depth=900,
                  expect='AbortLog', workers=8)
    elif pid == 'C20':
        bad = [(0, 'ns', 17), (1, 'zz', 18), (2, 'other', 18), (0, 'ns', 18)]
        orders = []
        # every request is eventually offered an acceptable one; refused ones in between
        base = [(0, 'ns', 18), (0, 'ns', 18), (3, 'ew', 17), (2, 'other', 18), (1, 'ew', 18),
                (1, 'zz', 18), (2, 'ns', 18), (3, 'ew', 18)]
        if quick:
            orders.append([(0, 'ns', 18), (0, 'ns', 18), (1, 'ew', 18), (2, 'other', 18),
                           (2, 'ns', 18), (3, 'ew', 18)])
            orders.append([(3, 'ew', 17), (3, 'ew', 18), (2, 'ns', 18), (1, 'zz', 18),
                           (1, 'ew', 18), (0, 'ns', 18)])
        else:
            orders.append(base)
            orders.append([(2, 'ns', 18), (0, 'xx', 18), (2, 'ns', 18), (1, 'ew', 18), (1, 'ew', 19),
                           (0, 'ns', 18), (3, 'e', 18), (3, 'ew', 18)])
        if not quick:
            goods = GOOD
            for perm in itertools.islice(itertools.permutations(goods), 0, 24, 3):
                seq: List[tuple] = []
                seated: Dict[int, str] = {}
                for gi, g in enumerate(perm):
                    # at most 8 requests in all (3.0e6 states, 2-3 minutes; every
                    # further request multiplies the state space by about three)
                    room = lambda: len(seq) + (len(perm) - gi) < 8      # noqa: E731
                    if seated and r.random() < 0.8 and room():
                        s = r.choice(sorted(seated))
                        seq.append((s, seated[s], 18))                  # seat taken
                    if r.random() < 0.5 and room():
                        seq.append((g[0], g[1], r.choice([17, 19])))    # wrong version
                    p = (g[0] + 2) % 4
                    if p in seated and r.random() < 0.7 and room():
                        seq.append((g[0], seated[p] + 'x', 18))         # partner's team differs
                    seq.append(g)
                    seated[g[0]] = g[1]
                orders.append(seq)
        for k, rqs in enumerate(orders):
            run_model(chk, f'Table admission, arrival order #{k} ({len(rqs)} requests), '
                           f'every interleaving',
                      rqs, [b0], [script_for(*b0, po, 1, r)], 1,
                      invs=['Completed', 'RejectedGetOneError', 'SeatedAsSpecified',
                            'PartnersShareTeam', 'SentComplete', 'BarrierShape'],
                      props=['TableOnlyGrows'], workers=16)
        # termination with a refused request in between (fairness conditions grow
        # with the number of threads, hence the small instance)
        run_model(chk, 'Table admission: 5 requests, termination under weak fairness',
                  [(0, 'ns', 18), (1, 'ew', 18), (1, 'ew', 18), (2, 'ns', 18), (3, 'ew', 18)],
                  [b0], [script_for(*b0, po, 1, r)], 1,
                  invs=['Completed', 'RejectedGetOneError'], props=['Termination_'], workers=16)
