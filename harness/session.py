"""Runs one session of the real table manager (Server + PlayerThreads) with
four real bundled Clients (or raw requesters) under the baton and collects
everything the table properties speak about: the byte stream of every
connection in both directions, the decisions of the seats, the output file,
the fate of every thread, the block order, and the clients' replicas."""
from __future__ import annotations

import json
import os
import pathlib
import random as _random
import re
from typing import Any, Callable, Dict, List, Optional, Sequence, Tuple

from . import baton
from .play import card, cnum, cards_sorted, make_hands

SEATS = ['North', 'East', 'South', 'West']
NOSEAT, NOCALL = 4, 38


def _imp():
    from bridge_env import Bid, Card, Contract, Hands, Pair, Player, Suit, Vul
    return Bid, Card, Contract, Hands, Pair, Player, Suit, Vul


# --------------------------------------------------------------------------
# decision policies of a seat (plugged into the bundled Client)
# --------------------------------------------------------------------------
class Decisions:
    """What the four seats decide, recorded in the order decided."""

    def __init__(self):
        self.log: List[Dict[str, Any]] = []
        self.board = 0          # set by the harness through the header count

    def add(self, seat: int, kind: str, value: int, by: int, board: int) -> None:
        self.log.append({'seat': seat, 'kind': kind, 'value': value, 'by': by,
                         'board': board})


def make_systems(seat: int, rnd, dec: Decisions, style: Dict[str, Any],
                 holder: Dict[str, Any]):
    from bridge_env.network_bridge.bidding_system import BiddingSystem
    from bridge_env.network_bridge.playing_system import PlayingSystem
    Bid, Card, Contract, Hands, Pair, Player, Suit, Vul = _imp()

    class Bidder(BiddingSystem):
        def bid(self, hand, env):
            av = [i for i, x in enumerate(env.available_bid) if x == 1]
            ncalls = len(env.bid_history)
            mode = style.get('auction', 'short')
            script = style.get('script')
            board = holder['client'].board_num
            th = style.get('think')
            if th and th['board'] == board and ncalls >= th.get('at', 0) and not holder.get('thought'):
                # this seat's program takes its time (virtual seconds) over one call
                holder['thought'] = True
                holder['sched'].clock += th['seconds']
            if board in style.get('passout_boards', ()):
                c = 35
            elif script is not None:
                c = script[ncalls] if ncalls < len(script) else 35
            elif mode == 'passout':
                c = 35
            elif mode == 'illegal' and style.get('illegal_at') == (board, ncalls):
                c = style.get('illegal_call', 37)
            elif mode == 'weak':
                c = 0 if 0 in av else 35
            else:
                # random legal calls, passes more likely as the auction grows
                ppass = min(0.95, style.get('ppass', 0.45) + 0.06 * ncalls)
                others = [x for x in av if x != 35]
                if not others or rnd.random() < ppass:
                    c = 35
                else:
                    dbl = [x for x in others if x >= 36]
                    bids = [x for x in others if x < 35]
                    if dbl and rnd.random() < 0.5:
                        c = rnd.choice(dbl)
                    elif bids:
                        c = bids[min(len(bids) - 1, int(rnd.expovariate(0.35)))]
                    else:
                        c = 35
            dec.add(seat, 'call', c, seat, board)
            return Bid.int_to_bid(c)

    class Player_(PlayingSystem):
        def play(self, hand, env):
            legal = sorted(cnum(c) for c in env.current_available_cards(hand))
            held = sorted(cnum(c) for c in hand)
            if style.get('play', 'legal') == 'lowest':
                c = legal[0]                  # deterministic: rotated deals are played alike
            elif style.get('play') == 'ruff-low':
                # follow with a random card, but ruff (or discard) with the lowest card held
                led_suits = {x // 13 for x in legal}
                c = legal[0] if len(led_suits) > 1 else rnd.choice(legal)
            elif style.get('play', 'legal') == 'revoke' and rnd.random() < 0.3:
                c = rnd.choice(held)
            else:
                c = rnd.choice(legal)
            # the seat whose card this is: dummy's when declarer plays for it
            owner = env.active_player.value - 1
            dec.add(owner, 'card', c, seat, holder['client'].board_num)
            # what the client's own replica offered to its playing system (C06)
            dec.log[-1]['offered'] = legal
            dec.log[-1]['held'] = held
            return card(c)

    return Bidder(), Player_()


# --------------------------------------------------------------------------
# mangling of what a client puts on the wire
# --------------------------------------------------------------------------
CALL_RE = re.compile(rb'^(North|East|South|West) (bids \d(?:C|D|H|S|NT)|passes|doubles|redoubles)\r\n$')
CARD_RE = re.compile(rb'^(North|East|South|West) plays ([2-9TJQKA])([CDHS])\r\n$')


class Mangler:
    """Applies protocol-conforming variations (letter case, the other card
    notation, an alert suffix) and, for the fault checks, one offence at a
    chosen point."""

    def __init__(self, rnd, vary: bool, fault: Optional[Dict[str, Any]] = None):
        self.r, self.vary, self.fault = rnd, vary, fault
        self.ncalls = 0
        self.ncards = 0
        self.board = 1
        self.fired = False
        self.wire: List[Dict[str, str]] = []      # what went on the wire for each decision
        self.first_card: Optional[bytes] = None   # the first card message of the current board

    def __call__(self, data: bytes) -> bytes:
        m = CALL_RE.match(data)
        k = CARD_RE.match(data)
        if data.lower().endswith(b'ready for deal\r\n'):
            pass
        if m:
            self.ncalls += 1
        if k:
            self.ncards += 1
            if self.first_card is None:
                self.first_card = bytes(data)
        f = self.fault
        if f and not self.fired and f['board'] == self.board and f['kind'] == 'bad-ready':
            if data.lower().endswith(f['line']):
                self.fired = True
                return b'I am confused\r\n'
        elif f and not self.fired and f['board'] == self.board:
            if m and f['phase'] == 'auction' and self.ncalls == f['index']:
                self.fired = True
                return self._offend(f['kind'], m.group(1), True)
            if k and f['phase'] == 'play' and self.ncards == f['index']:
                self.fired = True
                return self._offend(f['kind'], k.group(1), False)
        if m:
            body = data[:-2]
            sent = body
            if self.vary:
                v = self.r.randrange(4)
                body = [body, body.lower(), body.upper(), body.title()][v]
                sent = body
                if self.r.random() < 0.3:
                    sent = body + self.r.choice([b' Alert.', b' alert. ', b' ALERT.',
                                                 b'  Alert.  '])
            self.wire.append({'kind': 'call', 'sent': sent.decode(), 'relay': body.decode()})
            return sent + b'\r\n'
        if k:
            body = data[:-2]
            if self.vary:
                seat, rank, suit = k.group(1), k.group(2), k.group(3)
                cardtxt = rank + suit if self.r.random() < 0.5 else suit + rank
                body = seat + b' plays ' + cardtxt
                v = self.r.randrange(3)
                body = [body, body.lower(), body.upper()][v]
            self.wire.append({'kind': 'card', 'sent': body.decode(), 'relay': body.decode()})
            return body + b'\r\n'
        return data

    def _offend(self, kind: str, seat: bytes, auction: bool) -> bytes:
        if kind == 'garbage':
            return seat + b' frobnicates 9Z\r\n'
        if kind == 'illegal-call':
            return seat + b' redoubles\r\n' if self.fault.get('first', True) else seat + b' bids 1C\r\n'
        if kind == 'not-held':
            return seat + b' plays ' + self.fault['card'] + b'\r\n'
        if kind == 'replay':
            # the first card this connection sent on the board, once more
            return self.first_card or (seat + b' plays ' + self.fault['card'] + b'\r\n')
        if kind == 'wrong-name':
            other = b'East' if seat != b'East' else b'West'
            return other + (b' passes\r\n' if auction else b' plays 2C\r\n')
        return b'\r\n'

    def new_board(self) -> None:
        self.first_card = None
        self.board += 1
        self.ncalls = 0
        self.ncards = 0


# --------------------------------------------------------------------------
# the session
# --------------------------------------------------------------------------
def lines_of(payloads: List[Tuple[int, bytes]]) -> List[Tuple[int, str]]:
    out = []
    for seq, data in payloads:
        txt = data.decode('utf-8', 'replace')
        parts = txt.split('\r\n')
        for p in parts[:-1]:
            out.append((seq, p))
        if parts[-1]:
            out.append((seq, parts[-1] + '<no CRLF>'))
    return out


def project_replica(obs) -> Dict[str, Any]:
    Bid, Card, Contract, Hands, Pair, Player, Suit, Vul = _imp()
    return {'decl': obs.declarer.value - 1, 'trump': obs.trump.value - 1,
            'leader': obs.leader.value - 1, 'active': obs.active_player.value - 1,
            'tricknum': obs.trick_num,
            'taken': [obs.taken_tricks[Pair.NS], obs.taken_tricks[Pair.EW]],
            'hist': [{'leader': t.leader.value - 1, 'cards': [cnum(c) for c in t.cards]}
                     for t in obs.playing_history.history],
            'done': bool(obs.has_done())}


def project_contract(c) -> Dict[str, Any]:
    if c is None:
        return {'none': True}
    fb = c.final_bid
    return {'bid': NOCALL if (fb is None or c.is_passed_out()) else fb.idx,
            'x': bool(c.x), 'xx': bool(c.xx), 'vul': c.vul.value - 1,
            'decl': NOSEAT if c.declarer is None else c.declarer.value - 1}


class _Table:
    """One table manager with its four (or more) requesters inside a shared
    controlled world."""

    def __init__(self, cfg: Dict[str, Any], sched, world, port: int, suffix: str):
        self.cfg, self.sched, self.world, self.port, self.suffix = cfg, sched, world, port, suffix
        self.rnd = _random.Random(cfg.get('seed', 0))
        self.rnd.randrange(1 << 30)       # (keeps the decision streams of earlier versions)
        self.dec = Decisions()
        self.replicas: List[Dict[str, Any]] = []
        self.client_info: List[Dict[str, Any]] = []
        self.outpath = pathlib.Path(cfg['outdir']) / \
            f'out-{os.getpid()}-{cfg.get("tag", 0)}{suffix}.json'
        if self.outpath.exists():
            self.outpath.unlink()
        if cfg.get('stale_output'):
            # the output path already holds the complete log of an earlier session
            # (a LONG one: longer than anything this session will write)
            self.outpath.write_text('{"logs": [\n' + ',\n'.join(
                '{"board_id": "stale-%d", "note": "%s"}' % (j, 'x' * 900) for j in range(400)) + '\n]}')
        self.end_snapshots: List[Optional[str]] = []
        self.at_stuck: Dict[str, Any] = {}
        self.at_main_return: Dict[str, Any] = {}
        self.settings = None

    def main_name(self) -> str:
        return 'main' + self.suffix

    def setup(self) -> None:
        Bid, Card, Contract, Hands, Pair, Player, Suit, Vul = _imp()
        from bridge_env.data_handler.abstract_classes import BoardSetting
        from bridge_env.network_bridge import client as cmod
        from bridge_env.network_bridge import server as smod
        cfg, sched, world, rnd = self.cfg, self.sched, self.world, self.rnd
        settings = cfg.get('settings_obj')
        if cfg['boards'] is None:
            settings = None          # the server deals 100 random boards itself
        elif settings is None:
            def hands_of(j, dl):
                if j % 3 != 1:
                    return make_hands(dl)
                # a Hands object made for another deal (the same cards turned by a
                # seat) whose four seat attributes were assigned afterwards - the
                # other table of a match prepared from this table's object
                h = make_hands([dl[(q_ + 1) % 4] for q_ in range(4)])
                h.north, h.east, h.south, h.west = [{card(c) for c in dl[q_]} for q_ in range(4)]
                return h
            settings = [BoardSetting(hands=hands_of(j_, dl), dealer=Player(d + 1), vul=Vul(v + 1),
                                     board_id=bid_, dda=dda)
                        for j_, (dl, d, v, bid_, dda) in enumerate(cfg['boards'])]
        self.settings = settings
        port, outpath = self.port, self.outpath

        via = cfg.get('via_main')
        if via:
            # the command line: the boards come from a file (written here by the
            # real settings writer, or rendered as a PBN import file) and the
            # session starts at the restart index
            import logging as _logging
            world._set(_logging, 'basicConfig', lambda *a, **k: None)
            sfile = pathlib.Path(cfg['outdir']) / f'boards-{os.getpid()}-{cfg.get("tag", 0)}.{via["format"]}'
            if via['format'] == 'json':
                from bridge_env.data_handler.json_handler.writer import JsonBoardSettingWriter
                with open(sfile, 'w') as fw:
                    with JsonBoardSettingWriter(fw) as w:
                        for b in settings:
                            w.write(board_id=b.board_id, dealer=b.dealer, deal=b.hands, vul=b.vul,
                                    dda=b.dda)
            else:
                with open(sfile, 'w', newline='') as fw:
                    fw.write('% PBN 2.1\n% EXPORT\n')
                    for k_, b in enumerate(settings):
                        fw.write(f'[Event "x"]\n[Board "{b.board_id}"]\n[Dealer "{b.dealer}"]\n'
                                 f'[Vulnerable "{b.vul}"]\n'
                                 f'[Deal "{b.hands.to_pbn(Player(1 + k_ % 4))}"]\n\n')
            self.settings_file = sfile

        def main_fn():
            if via:
                import sys as _sys
                old_argv = _sys.argv
                _sys.argv = ['server', '-p', str(port), '-i', '127.0.0.1', '-b', str(sfile),
                             '-r', str(via['restart']), '-o', str(outpath)]
                try:
                    smod.main()
                finally:
                    _sys.argv = old_argv
                    try:
                        sfile.unlink()
                    except OSError:
                        pass
                return
            try:
                with smod.Server(ip_address='127.0.0.1', port=port, output_file_path=outpath,
                                 board_settings=settings) as server:
                    server.run()
            finally:
                self.at_main_return['returned'] = True
                # Server.run is over: what do its threads look like right now?
                mine = [pt for pt in world.player_threads
                        if getattr(pt.connection, 'port', port) == port]
                self.at_main_return['seats_done'] = all(pt._baton.state == 'done' for pt in mine)
                if cfg.get('exit_after_run'):
                    # as the command line does: the process ends when run()
                    # returns - daemon threads still alive die with it and the
                    # operating system closes their connections
                    for pt in mine:
                        if pt._baton.state != 'done':
                            sched.kill(pt._baton)
                            try:
                                pt.connection.close()
                            except Exception:  # noqa
                                pass
        sched.spawn(self.main_name(), main_fn)
        teams = cfg.get('teams', ('teamNS', 'teamEW'))
        requesters = cfg.get('requesters')
        if requesters is None:
            requesters = [{'kind': 'client', 'seat': s_, 'team': teams[s_ % 2]} for s_ in range(4)]
        self.requesters = requesters
        gate = {'turn': 0}
        ordered = cfg.get('ordered_arrival', False)
        dec, net = self.dec, world.net

        def mk_client(idx: int, rq: Dict[str, Any]):
            seat = rq['seat']
            crnd = _random.Random(rnd.randrange(1 << 30))
            style = (cfg.get('styles') or [{}] * 4)[seat]
            holder: Dict[str, Any] = {'sched': sched}
            bs, ps = make_systems(seat, crnd, dec, style, holder)
            fault = cfg.get('fault')
            mang = Mangler(crnd, cfg.get('vary', False),
                           fault if fault and fault['seat'] == seat else None)
            info = {'idx': idx, 'seat': seat, 'kind': 'client', 'exc': None, 'mangler': mang}
            self.client_info.append(info)

            def hook(data: bytes):
                if data.lower().endswith(b'ready for deal\r\n') and info.get('deals', 0) >= 1:
                    mang.new_board()
                if data.lower().endswith(b'ready for deal\r\n'):
                    info['deals'] = info.get('deals', 0) + 1
                return mang(data)

            def fn():
                if ordered:
                    sched.yield_point('gate', None, lambda: gate['turn'] == idx)
                try:
                    with cmod.Client(player=Player(seat + 1), team_name=rq['team'],
                                     bidding_system=bs, playing_system=ps,
                                     ip_address='127.0.0.1', port=port) as cl:
                        sock = cl.get_socket()
                        orig_connect = sock.connect

                        def connect(addr):
                            orig_connect(addr)
                            sock.conn.mangle = hook
                            info['conn'] = sock.conn
                            sock.conn.peer.observer = self.server_says
                            gate['turn'] += 1
                        sock.connect = connect
                        info['client'] = cl
                        holder['client'] = cl
                        cl._verif_table = self
                        cl.run()
                        if cfg.get('linger'):
                            # this player's program keeps its connection open after "End of
                            # session" until the table manager's run() has returned (a driver
                            # that tears everything down at the end; a client that lets the
                            # server hang up first)
                            sched.yield_point('linger', None,
                                              lambda: bool(self.at_main_return.get('returned')))
                except baton.Abort:
                    raise
                except BaseException as ex:  # noqa
                    info['exc'] = f'{type(ex).__name__}: {ex}'[:200]
            return fn

        def mk_raw(idx: int, rq: Dict[str, Any]):
            info = {'idx': idx, 'seat': rq['seat'], 'kind': 'raw', 'exc': None, 'got': [],
                    'rq': rq}
            self.client_info.append(info)

            def fn():
                if ordered:
                    sched.yield_point('gate', None, lambda: gate['turn'] == idx)
                conn = net.connect(port)
                info['conn'] = conn
                gate['turn'] += 1
                from bridge_env.network_bridge.socket_interface import MessageInterface
                mi = MessageInterface(conn)
                try:
                    mi.send_message(rq['line'])
                    if rq.get('hangup'):
                        # does not wait for the answer: the refusal meets a closed
                        # connection (and is answered with a reset)
                        conn.close()
                        return
                    while True:
                        info['got'].append(mi.receive_message())
                except baton.Abort:
                    raise
                except BaseException as ex:  # noqa
                    info['exc'] = f'{type(ex).__name__}: {ex}'[:200]
            return fn

        for idx, rq in enumerate(requesters):
            fn = mk_client(idx, rq) if rq['kind'] == 'client' else mk_raw(idx, rq)
            sched.spawn(f'client{self.suffix}{idx}', fn)

    def server_says(self, data: bytes) -> None:
        # the moment the session is declared over to a seat: what does the log
        # on disk look like to somebody who reads it now?
        if data.startswith(b'End of session'):
            try:
                self.end_snapshots.append(self.outpath.read_text())
            except OSError:
                self.end_snapshots.append(None)

    def observe_stuck(self) -> None:
        try:
            self.at_stuck['file'] = self.outpath.read_text()
        except OSError:
            self.at_stuck['file'] = None
        self.at_stuck['main_alive'] = any(t.name == self.main_name() and t.state != 'done'
                                          for t in self.sched.threads)

    def collect(self, verdict: str) -> Dict[str, Any]:
        sched = self.sched
        th = {t.name: t for t in sched.threads}
        m = th[self.main_name()]
        result: Dict[str, Any] = {'verdict': verdict, 'settings_obj': self.settings}
        result['blocked'] = sched.blocked_at_end
        result['nblocks'] = sched.nblocks
        result['blocks'] = sched.blocks
        result['main_exc'] = None if m.exc is None else f'{type(m.exc).__name__}: {m.exc}'[:200]
        result['main_done'] = m.state == 'done'
        mine = [pt for pt in self.world.player_threads
                if getattr(pt.connection, 'port', self.port) == self.port]
        result['seat_threads'] = [
            {'name': pt._baton.name, 'done': pt._baton.state == 'done',
             'exc': None if pt._baton.exc is None else
             f'{type(pt._baton.exc).__name__}: {pt._baton.exc}'[:200]} for pt in mine]
        result['seats_done_at_main_return'] = self.at_main_return.get('seats_done', True)
        conns = []
        for info in self.client_info:
            c = info.get('conn')
            cth = th.get(f'client{self.suffix}{info["idx"]}')
            entry = {'idx': info['idx'], 'seat': info['seat'], 'kind': info['kind'],
                     'finished': cth is not None and cth.state == 'done',
                     'wire': info['mangler'].wire if 'mangler' in info else [],
                     'got': info.get('got'),
                     'exc': info['exc'], 'c2s': [], 's2c': [], 'server_closed': False,
                     'rq': info.get('rq')}
            if c is not None:
                entry['c2s'] = lines_of(c.sent)
                entry['s2c'] = lines_of(c.peer.sent)
                entry['server_closed'] = c.peer.closed_by_me
            conns.append(entry)
        result['conns'] = conns
        result['decisions'] = self.dec.log
        result['replicas'] = self.replicas
        try:
            result['file'] = self.outpath.read_text()
        except OSError:
            result['file'] = None
        try:
            self.outpath.unlink()
        except OSError:
            pass
        result['end_snapshots'] = self.end_snapshots
        result['at_stuck'] = self.at_stuck
        result['clock'] = sched.clock
        result['npoints'] = {t.name: t.npoints for t in sched.threads}
        return result


def run_session(cfg: Dict[str, Any]) -> Dict[str, Any]:
    """cfg keys: boards [(deal, dealer, vul, id, dda|None)] (None: the server
    deals 100 random boards), seed, policy (callable(rnd) -> baton.Policy),
    styles (per seat dict), vary (bool), fault (dict|None), interrupt (point of
    main | None), outdir, teams (ns, ew), requesters (admission scenarios),
    max_blocks, second (cfg of a second table alive in the same process)."""
    from bridge_env.network_bridge import client as cmod
    from bridge_env import playing_phase as ppmod
    rnd = _random.Random(cfg.get('seed', 0))
    policy = cfg['policy'](_random.Random(rnd.randrange(1 << 30)))
    inject = {}
    if cfg.get('interrupt') is not None:
        inject[('main', cfg['interrupt'])] = KeyboardInterrupt()
    sched = baton.Sched(policy, max_blocks=cfg.get('max_blocks', 300000), inject=inject,
                        record_blocks=cfg.get('record_blocks', True))
    py_state = _random.getstate()
    tables: List[_Table] = []
    with baton.World(sched, debug_logging=bool(cfg.get('debug_logging'))) as world:
        if cfg.get('segment'):
            # the transport cuts what is sent into segments (also between CR and LF)
            world.net.segment = _random.Random(rnd.randrange(1 << 30))
        # ---- capture the replicas the clients build (from outside) ----------
        orig_obs = ppmod.ObservedPlayingPhase
        orig_bp = cmod.Client.bidding_phase
        orig_pp = cmod.Client.playing_phase

        def bidding_phase(self_):
            c = orig_bp(self_)
            self_._verif_table.replicas.append(
                {'seat': self_.player.value - 1, 'kind': 'contract',
                 'board': self_.board_num, 'contract': project_contract(c)})
            return c

        class CapturingObserved(orig_obs):
            def __init__(self_, contract, player, hand):
                super().__init__(contract, player, hand)
                CapturingObserved.last[id(hand)] = self_
        CapturingObserved.last = {}

        def playing_phase(self_, contract):
            try:
                return orig_pp(self_, contract)
            finally:
                ob = CapturingObserved.last.get(id(self_.hand_set))
                if ob is not None:
                    try:
                        pr = project_replica(ob)
                    except Exception as ex:  # noqa
                        pr = {'error': repr(ex)}
                    pr.update({'seat': self_.player.value - 1, 'kind': 'play',
                               'board': self_.board_num})
                    self_._verif_table.replicas.append(pr)
        world._set(cmod.Client, 'bidding_phase', bidding_phase)
        world._set(cmod.Client, 'playing_phase', playing_phase)
        world._set(cmod, 'ObservedPlayingPhase', CapturingObserved)
        tables.append(_Table(cfg, sched, world, 2000, ''))
        if cfg.get('second') is not None:
            c2 = dict(cfg['second'])
            c2.setdefault('outdir', cfg['outdir'])
            c2.setdefault('tag', cfg.get('tag', 0))
            tables.append(_Table(c2, sched, world, 2001, 'B'))
        for t in tables:
            t.setup()

        def observe():
            for t in tables:
                t.observe_stuck()
        sched.on_stuck = observe
        verdict = sched.run(timeout=cfg.get('timeout', 600.0))   # real seconds; generous: the machine may be busy
    _random.setstate(py_state)
    result = tables[0].collect(verdict)
    if len(tables) > 1:
        result['second'] = tables[1].collect(verdict)
    return result
