"""C11 = in-process replicas (harness.play) + bundled clients over the protocol
(harness.table); both halves must hold."""
from __future__ import annotations

from .core import Check


def run(pid: str, tier: str) -> int:
    from . import play, table
    chk = Check(pid, tier)
    play.run_into(chk, pid, tier)
    rule = chk.rule
    chk.rule = ''
    table.run_into(chk, pid, tier)
    chk.rule = rule + ' || network half: ' + chk.rule
    return chk.finish()
