"""Checks of behaviour beyond the twenty listed properties (growth of the
specification).  They are run by  bin/check X01 ...  and are NOT registered in
MANIFEST.json; their evidence goes to evidence_extra/."""
from __future__ import annotations

import os
from typing import Any, Dict, List

from . import tlc
from .core import Check, MachineryError, report_rejects, validate_traces, VERIF


def x01_events() -> List[Dict[str, Any]]:
    from bridge_env import Player, Table, Team
    evs = []
    k = 0
    for t in (1, 2):
        for s in range(4):
            e = {'tid': f't{k}', 'ev': 'conv', 'fn': 'team.belong', 'seat': s, 'table': t,
                 'raised': False}
            try:
                e['out'] = Team.belong(Player(s + 1), Table(t)).value
            except Exception as ex:  # noqa
                e['raised'] = True
            evs.append(e)
            k += 1
    for t in (1, 2):
        e = {'tid': f't{k}', 'ev': 'conv', 'fn': 'table.props', 'a': t, 'raised': False}
        try:
            e.update({'other': Table(t).other.value, 'str': str(Table(t)),
                      'opp': Team(t).opponent.value, 'tstr': str(Team(t))})
        except Exception:  # noqa
            e['raised'] = True
        evs.append(e)
        k += 1
    return evs


def run_x02(pid: str, tier: str) -> int:
    """Malformed ready-lines: model (Table.tla ReadyFault*) and real server."""
    from . import core, table, tablemodel
    from .core import rng, seed, pmap
    core.EVIDENCE = VERIF / 'evidence_extra'
    chk = Check(pid, tier)
    chk.rule = 'a case is one session in which one seat sends a malformed ready-line on board k'
    r = rng('x02')
    b0 = tablemodel.small_board(r, 1, 0, 1)
    b1 = tablemodel.small_board(r, 1, 1, 2)
    po = [35] * 4
    scr = [tablemodel.script_for(*b0, po, 1, r), tablemodel.script_for(*b1, po, 1, r)]
    for fault in ((1, 'ready-deal', 2), (2, 'ready-cards', 0), (2, 'ready-deal', 3)):
        tablemodel.run_model(chk, f'Table: malformed ready-line {fault}: hangs, log open, one error',
                             tablemodel.GOOD, [b0, b1], scr, 1, fault=fault,
                             invs=['ReadyFaultHangs', 'ReadyFaultOneError', 'LogPrefix', 'BarrierShape'],
                             props=[], deadlock=False, workers=12)
    jobs = []
    for q in range(24 if tier == 'quick' else 400):
        nb = 1 + q % 3
        k = 1 + (q // 3) % nb
        boards = table.rand_boards(r, nb)
        line = [b'ready for deal\r\n', b'ready for cards\r\n'][q % 2]
        cfg = {'boards': boards, 'seed': r.randrange(1 << 30),
               'styles': [{'auction': 'weak' if q % 4 else 'passout'}] * 4, 'vary': False,
               'policy_spec': table.POLICIES[q % len(table.POLICIES)],
               'fault': {'board': k, 'seat': q % 4, 'phase': 'ready', 'index': 0, 'kind': 'bad-ready',
                         'line': line}}
        jobs.append((f'x{q}', cfg, 'ready-fault', k - 1))
    events = pmap(_x02_job, jobs, chunk=2)
    for e in events:
        chk.count(e['tid'])
    chk.sample({k: events[0][k] for k in ('tid', 'done', 'stuck', 'offender', 'others_closed')})
    rejects = validate_traces(chk, 'TableTrace', events, 'malformed ready-lines: real server vs Table.tla',
                              shards=8)
    report_rejects(chk, rejects, 'readyfault', key_of=lambda x: f'readyfault:{x.clause}')
    return chk.finish()


def _x02_job(job):
    from . import table
    from .session import run_session
    tid, cfg, kind, completed = job
    cfg = dict(cfg)
    spec = cfg['policy_spec']
    cfg['policy'] = lambda rnd: table.make_policy(spec, rnd)
    cfg['outdir'] = str(tlc.workdir())
    cfg['tag'] = tid
    cfg['record_blocks'] = False
    res = run_session(cfg)
    e = table.session_event(tid, cfg, res, kind, completed)
    seat = cfg['fault']['seat']
    off = next(c for c in res['conns'] if c['seat'] == seat)
    st = res.get('at_stuck') or {}
    txt = (st.get('file') or '')
    e['stuck'] = {'main_alive': bool(st.get('main_alive')), 'file_closed': txt.rstrip().endswith(']}')}
    e['offender'] = {'last': off['s2c'][-1][1] if off['s2c'] else '', 'server_closed': bool(off['server_closed'])}
    e['others_closed'] = any(c['server_closed'] for c in res['conns'] if c['seat'] != seat)
    return e


def _x03_job(job):
    """A session without a board list: the server deals 100 random boards.  The
    boards are reconstructed from the log and the session is then validated
    like any other (what was logged must be what was sent and played)."""
    import json as _json
    from . import table
    from .session import run_session
    tid, cfg = job
    cfg = dict(cfg)
    spec = cfg['policy_spec']
    cfg['policy'] = lambda rnd: table.make_policy(spec, rnd)
    cfg['outdir'] = str(tlc.workdir())
    cfg['tag'] = tid
    cfg['record_blocks'] = False
    cfg['max_blocks'] = 2000000
    res = run_session(cfg)
    boards = []
    try:
        doc = _json.loads(res['file'])
        for it in doc['logs']:
            deal = [sorted('CDHS'.index(c[0]) * 13 + '23456789TJQKA'.index(c[1]) for c in it['deal'][k])
                    for k in ('N', 'E', 'S', 'W')]
            boards.append((deal, 'NESW'.index(it['dealer']),
                           ['None', 'NS', 'EW', 'Both'].index(it['vulnerability']), it['board_id'], None))
    except Exception:  # noqa
        pass
    cfg['boards'] = boards or [([[], [], [], []], 0, 0, 'unreadable', None)]
    e = table.session_event(tid, cfg, res, 'normal', None)
    e['nboards'] = len(boards)
    e['ids_ok'] = [b[3] for b in boards] == [str(k) for k in range(1, 101)]
    return e


def run_x03(pid: str, tier: str) -> int:
    from . import core, table
    from .core import rng, pmap
    core.EVIDENCE = VERIF / 'evidence_extra'
    chk = Check(pid, tier)
    chk.rule = 'a case is one session of 100 boards dealt by the server itself'
    r = rng('x03')
    jobs = []
    for q in range(3 if tier == 'quick' else 24):
        played = set(r.sample(range(1, 101), 2 if tier == 'quick' else 6))
        styles = [{'auction': 'weak', 'passout_boards': set(range(1, 101)) - played}] * 4
        jobs.append((f'r{q}', {'boards': None, 'seed': r.randrange(1 << 30), 'styles': styles,
                               'vary': q % 2 == 0, 'policy_spec': table.POLICIES[q % 5]}))
    events = pmap(_x03_job, jobs)
    for e in events:
        chk.count(e['tid'])
        if e['nboards'] != 100 or not e['ids_ok']:
            chk.violation(f'randomboards:count-or-ids:{e["nboards"]}',
                          f'session {e["tid"]}: {e["nboards"]} boards logged, ids 1..100: {e["ids_ok"]}',
                          {'kind': 'random-boards', 'nboards': e['nboards']})
    chk.sample({'tid': events[0]['tid'], 'nboards': events[0]['nboards'],
                'blocks': events[0]['info']['nblocks']})
    rejects = validate_traces(chk, 'TableTrace', events, '100 random boards: real server vs TableObs',
                              shards=8, heap='6g')
    report_rejects(chk, rejects, 'randomboards', key_of=lambda x: f'randomboards:{x.clause}'[:160])
    return chk.finish()


def run(pid: str, tier: str) -> int:
    if pid == 'X02':
        return run_x02(pid, tier)
    if pid == 'X04':
        return run_x04(pid, tier)
    if pid == 'X05':
        return run_x05(pid, tier)
    if pid == 'X03':
        return run_x03(pid, tier)
    os.environ['VERIF_EVIDENCE_DIR'] = str(VERIF / 'evidence_extra')
    from . import core
    core.EVIDENCE = VERIF / 'evidence_extra'
    chk = Check(pid, tier)
    chk.rule = 'complete finite domain of Table / Team / Team.belong'
    d = tlc.fresh('mcdup')
    d.mkdir(parents=True)
    (d / 'MCDup.tla').write_text('---- MODULE MCDup ----\nEXTENDS Duplicate\n'
                                 'ASSUME TeamLaws\nASSUME ZeroSum\n====\n')
    res = tlc.run_tlc('MCDup', tlc.cfg_text(specification='Spec'), workers=1, spec_dir=d)
    if 'Assumption' in res.out and 'is false' in res.out:
        res.violated = 'TeamLaws'
        chk.model_violation(res, 'Duplicate.tla laws')
    else:
        tlc.require_clean(res, 'Duplicate laws')
    chk.add_tlc(res, 'ASSUME TeamLaws, ZeroSum')
    events = x01_events()
    for e in events:
        chk.count((e['fn'], e.get('seat'), e.get('table'), e.get('a')))
    chk.exhaustive = True
    chk.sample(events[0])
    rejects = validate_traces(chk, 'DuplicateTrace', events, 'real Table / Team vs Duplicate.tla',
                              shards=1)
    report_rejects(chk, rejects, 'duplicate', key_of=lambda x: f'duplicate:{x.clause}')
    return chk.finish()


def run_x04(pid: str, tier: str) -> int:
    """Commentary in PBN files (extract_content): Pbn.tla with TagC / Open0 /
    CText / Close lines; the real parser on every generated layout."""
    import json
    from . import core, pbn
    from .core import design_check, pmap, seed
    core.EVIDENCE = VERIF / 'evidence_extra'
    chk = Check(pid, tier)
    chk.rule = ('a case is one PBN file with commentary read by the real parser; '
                'distinct_nontrivial counts distinct files with at least one game')
    quick = tier == 'quick'
    kw = dict(maxgames=2, b0=(0, 1), mid=(1, 2), be=(0, 1), headers=(0, 1), orders=3 if quick else 12)
    design_check(chk, 'Pbn', pbn.pbn_cfg(invs=['ParsesBack'], comments=('none', 'semi', 'brace', 'block'), **kw),
                 'Pbn: commentary after a tag pair (to end of line, braces on one line, braces over '
                 'several lines with blank lines, tag pairs and % lines inside) does not change the games',
                 constants=str(kw), workers=8)
    design_check(chk, 'Pbn', pbn.pbn_cfg(invs=['ParsesBack'], comments=('block0',), **kw),
                 'Pbn as coded: a brace comment that starts in the first column is not recognised '
                 '(documented deviation from the PBN standard)',
                 constants='CommentStyles={block0} Col0Comments=FALSE', expect_violation='ParsesBack',
                 workers=4)
    design_check(chk, 'Pbn', pbn.pbn_cfg(invs=['ParsesBack'], comments=('block0', 'block'), col0=True, **kw),
                 'Pbn with first-column comments recognised (the standard): games unchanged',
                 constants='Col0Comments=TRUE', workers=4)
    allc = ('none', 'semi', 'brace', 'block', 'block0')
    res = tlc.run_tlc('Pbn', pbn.pbn_cfg(invs=['Export'], comments=allc, **kw), workers=1,
                      name='pbn-export-comments', timeout=3000, long_run=True)
    tlc.require_clean(res, 'pbn export with commentary')
    chk.add_tlc(res, 'export of every generated layout with commentary')
    layouts = list(res.json_lines)
    if len(layouts) != res.distinct:
        raise MachineryError(f'exported {len(layouts)} layouts for {res.distinct} states')
    wd = tlc.fresh('pbncomments')
    wd.mkdir(parents=True)
    per = 100
    jobs = [(f'K{a}', layouts[a:a + per], seed(), str(wd)) for a in range(0, len(layouts), per)]
    events: List[Dict[str, Any]] = []
    deviations = 0
    by_tid = {}
    for (tid0, lays, _, _) in jobs:
        for li, lay in enumerate(lays):
            by_tid[f'{tid0}.{li}'] = lay['meta']['cs']
    for evs, bad in pmap(pbn.render_job, jobs):
        for e in evs:
            cs = by_tid[e['tid'].rstrip('s')]
            if cs == 'block0':
                if e['ev'] == 'settings':
                    continue          # as coded the games are broken up: not boards any more
            events.append(e)
        for b in bad:
            if b['meta']['cs'] == 'block0':
                deviations += 1
            else:
                chk.violation(f'pbn-comments:{b["what"]}:{json.dumps(b["meta"], sort_keys=True)[:100]}',
                              f'real PbnParser on a layout with commentary: {b["what"]} gave '
                              f'{str(b.get("observed", b.get("msg")))[:300]} expected {str(b.get("expected"))[:300]}',
                              {'kind': 'pbn-layout', **b})
    for e in events:
        chk.evaluations += 1
        if e['ev'] == 'parse' and any(l['k'] in ('tag', 'tagc') for l in e['lines']):
            chk.distinct.add(hash(json.dumps(e['lines'])))
    chk.extra['layouts'] = len(layouts)
    chk.extra['first_column_comment_deviations_observed'] = deviations
    chk.sample(next(e for e in events if any(l['k'] == 'close' for l in e.get('lines', []))))
    rejects = validate_traces(chk, 'PbnTrace', events, 'real PbnParser vs Pbn!ParseFile with commentary')
    report_rejects(chk, rejects, 'pbn-comments', key_of=lambda x: f'pbn-comments:{x.clause}')
    return chk.finish()


def _x05_job(job):
    from . import table
    from .session import run_session
    tid, cfg, kind, completed = job
    cfg = dict(cfg)
    spec = cfg['policy_spec']
    cfg['policy'] = lambda rnd: table.make_policy(spec, rnd)
    cfg['outdir'] = str(tlc.workdir())
    cfg['tag'] = tid
    cfg['record_blocks'] = False
    res = run_session(cfg)
    r = cfg['via_main']['restart']
    played = dict(cfg)
    played['boards'] = cfg['boards'][r:] if 0 <= r < len(cfg['boards']) else cfg['boards'][:1]
    e = table.session_event(tid, played, res, 'restart')
    full = table.session_event(tid, cfg, res, 'restart')
    e['file_boards'] = full['boards']
    e['restart'] = r
    e['format'] = cfg['via_main']['format']
    return e


def run_x05(pid: str, tier: str) -> int:
    """Server main(): boards from a JSON / PBN file, restart index."""
    from . import core, table
    from .core import rng, pmap
    core.EVIDENCE = VERIF / 'evidence_extra'
    chk = Check(pid, tier)
    chk.rule = ('a case is one run of the real command line (main()) on a board file with a '
                'restart index, four real clients, one schedule')
    r = rng('x05')
    jobs = []
    for q in range(24 if tier == 'quick' else 600):
        nb = 1 + q % 4
        boards = table.rand_boards(r, nb)
        fmt = 'json' if q % 2 else 'pbn'
        if fmt == 'pbn':
            boards = [(dl, d, v, bid_.strip() or 'b', None) for (dl, d, v, bid_, dda) in boards]
        restart = [0, nb - 1, q % nb, nb, -1, nb + 3][q % 6]
        cfg = {'boards': boards, 'seed': r.randrange(1 << 30),
               'styles': [{'auction': 'weak' if q % 3 else 'short', 'passout_boards': {1} if q % 5 == 0 else set()}] * 4,
               'vary': q % 2 == 0, 'policy_spec': table.POLICIES[q % len(table.POLICIES)],
               'via_main': {'format': fmt, 'restart': restart}}
        jobs.append((f'm{q}', cfg, 'restart', None))
    events = pmap(_x05_job, jobs, chunk=2)
    for e in events:
        chk.count(e['tid'])
    chk.extra['refused_indices'] = sum(1 for e in events if not (0 <= e['restart'] < len(e['file_boards'])))
    chk.sample({k: events[1][k] for k in ('tid', 'restart', 'format', 'done')})
    rejects = validate_traces(chk, 'TableTrace', events, 'main() with a board file and restart index vs TableObs',
                              shards=8)
    report_rejects(chk, rejects, 'restart', key_of=lambda x: f'restart:{x.clause}'[:160])
    return chk.finish()
