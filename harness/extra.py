"""Checks of behaviour beyond the twenty listed properties (growth of the
specification).  They are run by  bin/check X01 ...  and are NOT registered in
MANIFEST.json; their evidence goes to evidence_extra/."""
from __future__ import annotations

import os
from typing import Any, Dict, List

from . import tlc
from .core import Check, MachineryError, report_rejects, validate_traces, VERIF


def x01_events() -> List[Dict[str, Any]]:
    from bridge_env import Player, Table, Team
    evs = []
    k = 0
    for t in (1, 2):
        for s in range(4):
            e = {'tid': f't{k}', 'ev': 'conv', 'fn': 'team.belong', 'seat': s, 'table': t,
                 'raised': False}
            try:
                e['out'] = Team.belong(Player(s + 1), Table(t)).value
            except Exception as ex:  # noqa
                e['raised'] = True
            evs.append(e)
            k += 1
    for t in (1, 2):
        e = {'tid': f't{k}', 'ev': 'conv', 'fn': 'table.props', 'a': t, 'raised': False}
        try:
            e.update({'other': Table(t).other.value, 'str': str(Table(t)),
                      'opp': Team(t).opponent.value, 'tstr': str(Team(t))})
        except Exception:  # noqa
            e['raised'] = True
        evs.append(e)
        k += 1
    return evs


def run(pid: str, tier: str) -> int:
    os.environ['VERIF_EVIDENCE_DIR'] = str(VERIF / 'evidence_extra')
    from . import core
    core.EVIDENCE = VERIF / 'evidence_extra'
    chk = Check(pid, tier)
    chk.rule = 'complete finite domain of Table / Team / Team.belong'
    d = tlc.fresh('mcdup')
    d.mkdir(parents=True)
    (d / 'MCDup.tla').write_text('---- MODULE MCDup ----\nEXTENDS Duplicate\n'
                                 'ASSUME TeamLaws\nASSUME ZeroSum\n====\n')
    res = tlc.run_tlc('MCDup', tlc.cfg_text(specification='Spec'), workers=1, spec_dir=d)
    if 'Assumption' in res.out and 'is false' in res.out:
        res.violated = 'TeamLaws'
        chk.model_violation(res, 'Duplicate.tla laws')
    else:
        tlc.require_clean(res, 'Duplicate laws')
    chk.add_tlc(res, 'ASSUME TeamLaws, ZeroSum')
    events = x01_events()
    for e in events:
        chk.count((e['fn'], e.get('seat'), e.get('table'), e.get('a')))
    chk.exhaustive = True
    chk.sample(events[0])
    rejects = validate_traces(chk, 'DuplicateTrace', events, 'real Table / Team vs Duplicate.tla',
                              shards=1)
    report_rejects(chk, rejects, 'duplicate', key_of=lambda x: f'duplicate:{x.clause}')
    return chk.finish()
