"""Checks of behaviour beyond the twenty listed properties (growth of the
specification).  They are run by  bin/check X01 ...  and are NOT registered in
MANIFEST.json; their evidence goes to evidence_extra/."""
from __future__ import annotations

import os
from typing import Any, Dict, List

from . import tlc
from .core import Check, MachineryError, report_rejects, validate_traces, VERIF


def x01_events() -> List[Dict[str, Any]]:
    from bridge_env import Player, Table, Team
    evs = []
    k = 0
    for t in (1, 2):
        for s in range(4):
            e = {'tid': f't{k}', 'ev': 'conv', 'fn': 'team.belong', 'seat': s, 'table': t,
                 'raised': False}
            try:
                e['out'] = Team.belong(Player(s + 1), Table(t)).value
            except Exception as ex:  # noqa
                e['raised'] = True
            evs.append(e)
            k += 1
    for t in (1, 2):
        e = {'tid': f't{k}', 'ev': 'conv', 'fn': 'table.props', 'a': t, 'raised': False}
        try:
            e.update({'other': Table(t).other.value, 'str': str(Table(t)),
                      'opp': Team(t).opponent.value, 'tstr': str(Team(t))})
        except Exception:  # noqa
            e['raised'] = True
        evs.append(e)
        k += 1
    return evs


def run_x02(pid: str, tier: str) -> int:
    """Malformed ready-lines: model (Table.tla ReadyFault*) and real server."""
    from . import core, table, tablemodel
    from .core import rng, seed, pmap
    core.EVIDENCE = VERIF / 'evidence_extra'
    chk = Check(pid, tier)
    chk.rule = 'a case is one session in which one seat sends a malformed ready-line on board k'
    r = rng('x02')
    b0 = tablemodel.small_board(r, 1, 0, 1)
    b1 = tablemodel.small_board(r, 1, 1, 2)
    po = [35] * 4
    scr = [tablemodel.script_for(*b0, po, 1, r), tablemodel.script_for(*b1, po, 1, r)]
    for fault in ((1, 'ready-deal', 2), (2, 'ready-cards', 0), (2, 'ready-deal', 3)):
        tablemodel.run_model(chk, f'Table: malformed ready-line {fault}: hangs, log open, one error',
                             tablemodel.GOOD, [b0, b1], scr, 1, fault=fault,
                             invs=['ReadyFaultHangs', 'ReadyFaultOneError', 'LogPrefix', 'BarrierShape'],
                             props=[], deadlock=False, workers=12)
    jobs = []
    for q in range(24 if tier == 'quick' else 400):
        nb = 1 + q % 3
        k = 1 + (q // 3) % nb
        boards = table.rand_boards(r, nb)
        line = [b'ready for deal\r\n', b'ready for cards\r\n'][q % 2]
        cfg = {'boards': boards, 'seed': r.randrange(1 << 30),
               'styles': [{'auction': 'weak' if q % 4 else 'passout'}] * 4, 'vary': False,
               'policy_spec': table.POLICIES[q % len(table.POLICIES)],
               'fault': {'board': k, 'seat': q % 4, 'phase': 'ready', 'index': 0, 'kind': 'bad-ready',
                         'line': line}}
        jobs.append((f'x{q}', cfg, 'ready-fault', k - 1))
    events = pmap(_x02_job, jobs, chunk=2)
    for e in events:
        chk.count(e['tid'])
    chk.sample({k: events[0][k] for k in ('tid', 'done', 'stuck', 'offender', 'others_closed')})
    rejects = validate_traces(chk, 'TableTrace', events, 'malformed ready-lines: real server vs Table.tla',
                              shards=8)
    report_rejects(chk, rejects, 'readyfault', key_of=lambda x: f'readyfault:{x.clause}')
    return chk.finish()


def _x02_job(job):
    from . import table
    from .session import run_session
    tid, cfg, kind, completed = job
    cfg = dict(cfg)
    spec = cfg['policy_spec']
    cfg['policy'] = lambda rnd: table.make_policy(spec, rnd)
    cfg['outdir'] = str(tlc.workdir())
    cfg['tag'] = tid
    cfg['record_blocks'] = False
    res = run_session(cfg)
    e = table.session_event(tid, cfg, res, kind, completed)
    seat = cfg['fault']['seat']
    off = next(c for c in res['conns'] if c['seat'] == seat)
    st = res.get('at_stuck') or {}
    txt = (st.get('file') or '')
    e['stuck'] = {'main_alive': bool(st.get('main_alive')), 'file_closed': txt.rstrip().endswith(']}')}
    e['offender'] = {'last': off['s2c'][-1][1] if off['s2c'] else '', 'server_closed': bool(off['server_closed'])}
    e['others_closed'] = any(c['server_closed'] for c in res['conns'] if c['seat'] != seat)
    return e


def _x03_job(job):
    """A session without a board list: the server deals 100 random boards.  The
    boards are reconstructed from the log and the session is then validated
    like any other (what was logged must be what was sent and played)."""
    import json as _json
    from . import table
    from .session import run_session
    tid, cfg = job
    cfg = dict(cfg)
    spec = cfg['policy_spec']
    cfg['policy'] = lambda rnd: table.make_policy(spec, rnd)
    cfg['outdir'] = str(tlc.workdir())
    cfg['tag'] = tid
    cfg['record_blocks'] = False
    cfg['max_blocks'] = 2000000
    res = run_session(cfg)
    boards = []
    try:
        doc = _json.loads(res['file'])
        for it in doc['logs']:
            deal = [sorted('CDHS'.index(c[0]) * 13 + '23456789TJQKA'.index(c[1]) for c in it['deal'][k])
                    for k in ('N', 'E', 'S', 'W')]
            boards.append((deal, 'NESW'.index(it['dealer']),
                           ['None', 'NS', 'EW', 'Both'].index(it['vulnerability']), it['board_id'], None))
    except Exception:  # noqa
        pass
    cfg['boards'] = boards or [([[], [], [], []], 0, 0, 'unreadable', None)]
    e = table.session_event(tid, cfg, res, 'normal', None)
    e['nboards'] = len(boards)
    e['ids_ok'] = [b[3] for b in boards] == [str(k) for k in range(1, 101)]
    return e


def run_x03(pid: str, tier: str) -> int:
    from . import core, table
    from .core import rng, pmap
    core.EVIDENCE = VERIF / 'evidence_extra'
    chk = Check(pid, tier)
    chk.rule = 'a case is one session of 100 boards dealt by the server itself'
    r = rng('x03')
    jobs = []
    for q in range(3 if tier == 'quick' else 24):
        played = set(r.sample(range(1, 101), 2 if tier == 'quick' else 6))
        styles = [{'auction': 'weak', 'passout_boards': set(range(1, 101)) - played}] * 4
        jobs.append((f'r{q}', {'boards': None, 'seed': r.randrange(1 << 30), 'styles': styles,
                               'vary': q % 2 == 0, 'policy_spec': table.POLICIES[q % 5]}))
    events = pmap(_x03_job, jobs)
    for e in events:
        chk.count(e['tid'])
        if e['nboards'] != 100 or not e['ids_ok']:
            chk.violation(f'randomboards:count-or-ids:{e["nboards"]}',
                          f'session {e["tid"]}: {e["nboards"]} boards logged, ids 1..100: {e["ids_ok"]}',
                          {'kind': 'random-boards', 'nboards': e['nboards']})
    chk.sample({'tid': events[0]['tid'], 'nboards': events[0]['nboards'],
                'blocks': events[0]['info']['nblocks']})
    rejects = validate_traces(chk, 'TableTrace', events, '100 random boards: real server vs TableObs',
                              shards=8, heap='6g')
    report_rejects(chk, rejects, 'randomboards', key_of=lambda x: f'randomboards:{x.clause}'[:160])
    return chk.finish()


def run(pid: str, tier: str) -> int:
    if pid == 'X02':
        return run_x02(pid, tier)
    if pid == 'X03':
        return run_x03(pid, tier)
    os.environ['VERIF_EVIDENCE_DIR'] = str(VERIF / 'evidence_extra')
    from . import core
    core.EVIDENCE = VERIF / 'evidence_extra'
    chk = Check(pid, tier)
    chk.rule = 'complete finite domain of Table / Team / Team.belong'
    d = tlc.fresh('mcdup')
    d.mkdir(parents=True)
    (d / 'MCDup.tla').write_text('---- MODULE MCDup ----\nEXTENDS Duplicate\n'
                                 'ASSUME TeamLaws\nASSUME ZeroSum\n====\n')
    res = tlc.run_tlc('MCDup', tlc.cfg_text(specification='Spec'), workers=1, spec_dir=d)
    if 'Assumption' in res.out and 'is false' in res.out:
        res.violated = 'TeamLaws'
        chk.model_violation(res, 'Duplicate.tla laws')
    else:
        tlc.require_clean(res, 'Duplicate laws')
    chk.add_tlc(res, 'ASSUME TeamLaws, ZeroSum')
    events = x01_events()
    for e in events:
        chk.count((e['fn'], e.get('seat'), e.get('table'), e.get('a')))
    chk.exhaustive = True
    chk.sample(events[0])
    rejects = validate_traces(chk, 'DuplicateTrace', events, 'real Table / Team vs Duplicate.tla',
                              shards=1)
    report_rejects(chk, rejects, 'duplicate', key_of=lambda x: f'duplicate:{x.clause}')
    return chk.finish()
