"""The baton: a deterministic scheduler under which the UNMODIFIED
bridge_env Server (main thread + PlayerThreads) and real Clients run one
thread at a time, every blocking or racy operation being a scheduling point.

Nothing in /repo is edited: the module globals through which server.py and
socket_interface.py reach Event / Queue / Barrier / time / socket are replaced
by the controlled equivalents below for the duration of a session, and
PlayerThread.start / join / is_alive are wrapped.  The semantics of the
controlled primitives are those of spec/PyThreading.tla.
"""
from __future__ import annotations

import collections
import threading
from typing import Any, Callable, Dict, List, Optional, Tuple


class Abort(BaseException):
    """Raised inside controlled threads to unwind them when a session is
    abandoned (deadlock detected, block limit reached)."""


class CThread:
    def __init__(self, name: str, fn: Callable[[], None]):
        self.name = name
        self.fn = fn
        self.sem = threading.Semaphore(0)
        self.state = 'ready'          # ready | blocked | running | done
        self.pending: Tuple[str, Any, Optional[Callable[[], bool]]] = ('begin', None, None)
        self.exc: Optional[BaseException] = None
        self.npoints = 0              # scheduling points passed
        self.real: Optional[threading.Thread] = None

    def enabled(self) -> bool:
        if self.state == 'done':
            return False
        if getattr(self, 'killed', False):
            return True               # scheduled once more, only to be unwound
        p = self.pending[2]
        return p is None or bool(p())


class Policy:
    """Chooses the next thread among the enabled ones."""

    def choose(self, enabled: List[CThread], sched: 'Sched') -> CThread:
        return enabled[0]


class Fifo(Policy):
    """Run the current thread as long as it can move, else the first enabled
    one in creation order (clients after the server threads)."""

    def choose(self, enabled, sched):
        if sched.current in enabled:
            return sched.current
        return enabled[0]


class RandomPolicy(Policy):
    """Seeded random priorities with occasional re-draws (PCT style)."""

    def __init__(self, rnd, change: float = 0.02, sticky: float = 0.0):
        self.r = rnd
        self.change = change
        self.sticky = sticky
        self.prio: Dict[str, float] = {}

    def choose(self, enabled, sched):
        for t in enabled:
            if t.name not in self.prio:
                self.prio[t.name] = self.r.random()
        if self.r.random() < self.change:
            t = self.r.choice(enabled)
            self.prio[t.name] = self.r.random()
        if self.sticky and sched.current in enabled and self.r.random() < self.sticky:
            return sched.current
        return max(enabled, key=lambda t: self.prio[t.name])


class UniformPolicy(Policy):
    def __init__(self, rnd):
        self.r = rnd

    def choose(self, enabled, sched):
        return self.r.choice(enabled)


class StallPolicy(Policy):
    """Thread `victim` is delayed from its k-th scheduling point on for as
    long as any other thread can move ("however long one thread is delayed");
    otherwise `base` decides."""

    def __init__(self, victim: str, k: int, base: Optional[Policy] = None,
                 length: Optional[int] = None):
        self.victim, self.k = victim, k
        self.base = base or Fifo()
        self.length = length          # None: until nobody else can move
        self.stalled = 0

    def choose(self, enabled, sched):
        v = next((t for t in enabled if t.name == self.victim), None)
        if v is not None and v.npoints >= self.k and \
                (self.length is None or self.stalled < self.length):
            others = [t for t in enabled if t is not v]
            if others:
                self.stalled += 1
                return self.base.choose(others, sched)
        return self.base.choose(enabled, sched)


class ScriptPolicy(Policy):
    """Follows a list of thread names (e.g. from a TLC behaviour); when the
    script is exhausted or names a thread that cannot move, `base` decides
    and the divergence is counted."""

    def __init__(self, script: List[str], base: Optional[Policy] = None):
        self.script = list(script)
        self.pos = 0
        self.base = base or Fifo()
        self.divergences = 0

    def choose(self, enabled, sched):
        clients = [t for t in enabled if t.name.startswith('client')]
        while self.pos < len(self.script):
            name = self.script[self.pos]
            t = next((x for x in enabled if x.name == name), None)
            if t is not None:
                self.pos += 1
                return t
            if clients:
                # the scripted thread waits for its client: clients are the
                # environment and move eagerly (the model folds them in)
                return clients[0]
            self.pos += 1
            self.divergences += 1
        return self.base.choose(enabled, sched)


class Sched:
    def __init__(self, policy: Policy, max_blocks: int = 400000,
                 inject: Optional[Dict[Tuple[str, int], BaseException]] = None,
                 record_blocks: bool = True):
        self.policy = policy
        self.max_blocks = max_blocks
        self.inject = dict(inject or {})
        self.threads: List[CThread] = []
        self.current: Optional[CThread] = None
        self.blocks: List[Tuple[str, str, str]] = []     # (thread, op, obj)
        self.record_blocks = record_blocks
        self.nblocks = 0
        self.aborting = False
        self.verdict: Optional[str] = None
        self.blocked_at_end: List[Tuple[str, str, str]] = []
        self.finished = threading.Event()
        self.lock = threading.Lock()
        self.clock = 0.0
        self.seq = 0                  # global sequence number of observable events
        self.by_ident: Dict[int, CThread] = {}
        self.on_stuck: Optional[Callable[[], None]] = None
        self.signal_disposition: Dict[int, Any] = {}      # signal.signal() calls of the program

    # ---- threads ------------------------------------------------------
    def spawn(self, name: str, fn: Callable[[], None]) -> CThread:
        t = CThread(name, fn)
        self.threads.append(t)

        def body():
            t.sem.acquire()
            if self.aborting or getattr(t, 'killed', False):
                t.state = 'done'
                self._maybe_finish()
                return
            t.state = 'running'
            try:
                t.fn()
            except Abort:
                pass
            except BaseException as ex:  # noqa
                t.exc = ex
            finally:
                self._thread_done(t)
        t.real = threading.Thread(target=body, name=f'baton-{name}', daemon=True)
        t.real.start()
        self.by_ident[t.real.ident] = t
        return t

    def me(self) -> CThread:
        return self.by_ident[threading.get_ident()]

    def _label(self, obj) -> str:
        return getattr(obj, 'label', '') if obj is not None else ''

    def _pick(self) -> Optional[CThread]:
        enabled = [t for t in self.threads if t.state != 'done' and t.enabled()]
        if not enabled:
            return None
        nxt = self.policy.choose(enabled, self)
        self.nblocks += 1
        if self.record_blocks:
            self.blocks.append((nxt.name, nxt.pending[0], self._label(nxt.pending[1])))
        return nxt

    def _stuck(self) -> None:
        live = [t for t in self.threads if t.state != 'done']
        if not live:
            self.verdict = self.verdict or 'all-done'
        else:
            self.verdict = self.verdict or 'deadlock'
            self.blocked_at_end = [(t.name, t.pending[0], self._label(t.pending[1]))
                                   for t in live]
            if self.on_stuck is not None:
                try:
                    self.on_stuck()      # observe the world before it is unwound
                except Exception:  # noqa
                    pass
        self._abort_all()

    def _abort_all(self) -> None:
        self.aborting = True
        for t in self.threads:
            if t.state != 'done':
                t.sem.release()
        self._maybe_finish()

    def _maybe_finish(self) -> None:
        if all(t.state == 'done' for t in self.threads):
            self.finished.set()

    def yield_point(self, op: str, obj: Any = None,
                    pred: Optional[Callable[[], bool]] = None) -> None:
        """Called by the running controlled thread before a blocking / racy
        operation; returns when the thread has been scheduled again and
        `pred` holds."""
        if self.aborting:
            raise Abort()
        me = self.me()
        me.pending = (op, obj, pred)
        me.state = 'blocked'
        if self.nblocks >= self.max_blocks:
            self.verdict = 'block-limit'
            self.blocked_at_end = [(t.name, t.pending[0], self._label(t.pending[1]))
                                   for t in self.threads if t.state != 'done']
            self._abort_all()
            me.sem.acquire()
            raise Abort()
        nxt = self._pick()
        if nxt is None:
            self._stuck()
            me.sem.acquire()
            raise Abort()
        if nxt is not me:
            self.current = nxt
            nxt.sem.release()
            me.sem.acquire()
            if self.aborting:
                raise Abort()
        if getattr(me, 'killed', False):
            raise Abort()
        me.state = 'running'
        me.npoints += 1
        me.put_since_point = False
        ex = self.inject.pop((me.name, me.npoints), None)
        if ex is not None:
            import signal as _sg
            if isinstance(ex, KeyboardInterrupt) and \
                    self.signal_disposition.get(int(_sg.SIGINT)) in (_sg.SIG_DFL,):
                # the program has asked for the default action of SIGINT: the
                # operator's interrupt ends the process at once - no exception,
                # no cleanup, nothing still buffered reaches the disk
                self.verdict = 'killed-by-signal'
                self.blocked_at_end = []
                for t_ in self.threads:
                    if t_.name.startswith('main') and t_.exc is None:
                        t_.exc = KeyboardInterrupt('process killed by SIGINT (SIG_DFL)')
                self._abort_all()
                raise Abort()
            raise ex

    def _thread_done(self, t: CThread) -> None:
        t.state = 'done'
        if self.aborting:
            self._maybe_finish()
            return
        nxt = self._pick()
        if nxt is None:
            self._stuck()
            return
        self.current = nxt
        nxt.sem.release()

    def run(self, timeout: float = 120.0) -> str:
        """Called from the (uncontrolled) driver thread."""
        first = self._pick()
        if first is None:
            self.verdict = 'all-done'
            return self.verdict
        self.current = first
        first.sem.release()
        if not self.finished.wait(timeout):
            self.verdict = 'harness-timeout'
            self._abort_all()
            self.finished.wait(5.0)
        if self.verdict is None:
            self.verdict = 'all-done'
        return self.verdict

    def kill(self, t: CThread) -> None:
        """The process ends under a daemon thread: it never runs again (it is
        scheduled once more only to be unwound)."""
        if t.state != 'done':
            t.killed = True

    def next_seq(self) -> int:
        self.seq += 1
        return self.seq


# --------------------------------------------------------------------------
# controlled primitives (semantics: spec/PyThreading.tla)
# --------------------------------------------------------------------------
class CEvent:
    _n = 0

    def __init__(self, sched: Sched, label: str = ''):
        self.s = sched
        CEvent._n += 1
        self.label = label or f'event{CEvent._n}'
        self.flag = False
        self.waiters: set = set()
        self.notified: set = set()

    def is_set(self) -> bool:
        return self.flag

    def set(self) -> None:
        self.s.yield_point('ev.set', self)
        self.flag = True
        self.notified |= self.waiters      # waiters inside wait() are released
        self.waiters.clear()               # even if clear() follows
        # a second scheduling point AFTER the signal: what the signalling
        # thread does next (plain writes to shared state included) may be
        # overtaken by the thread it has just released
        self.s.yield_point('ev.set.done', self)

    def clear(self) -> None:
        self.s.yield_point('ev.clear', self)
        self.flag = False

    def wait(self, timeout=None) -> bool:
        self.s.yield_point('ev.wait', self)
        if self.flag:
            return True
        me = self.s.me().name
        self.waiters.add(me)
        self.s.yield_point('ev.wake', self, lambda: me in self.notified)
        self.notified.discard(me)
        return True


class CBarrier:
    def __init__(self, sched: Sched, parties: int, label: str = 'barrier'):
        self.s = sched
        self.parties = parties
        self.label = label
        self.state = 0        # 0 filling, 1 draining, -1 resetting, -2 broken
        self.count = 0
        self.generation = 0

    @property
    def n_waiting(self) -> int:
        return self.count if self.state == 0 else 0

    @property
    def broken(self) -> bool:
        return self.state == -2

    def wait(self, timeout=None) -> int:
        import threading as _t
        self.s.yield_point('bar.enter', self, lambda: self.state in (0, -2))
        if self.state == -2:
            raise _t.BrokenBarrierError
        index = self.count
        self.count += 1
        if index + 1 == self.parties:
            self.state = 1                     # release
        else:
            self.s.yield_point('bar.wait', self, lambda: self.state != 0)
            if self.state in (-1, -2):         # reset() / abort() while waiting
                self.count -= 1
                if self.count == 0 and self.state == -1:
                    self.state = 0
                raise _t.BrokenBarrierError
        self.count -= 1
        if self.count == 0:
            self.state = 0
            self.generation += 1
        return index

    def reset(self) -> None:
        self.s.yield_point('bar.reset', self)
        if self.count > 0:
            if self.state == 0:
                self.state = -1                # waiters will raise
            elif self.state == -2:
                self.state = -1
        else:
            self.state = 0

    def abort(self) -> None:
        self.s.yield_point('bar.abort', self)
        self.state = -2


class CQueue:
    _n = 0

    def __init__(self, sched: Sched, label: str = ''):
        self.s = sched
        CQueue._n += 1
        self.label = label or f'queue{CQueue._n}'
        self.items: collections.deque = collections.deque()
        self.history: List[Tuple[int, Any]] = []      # (seq, item) of every put
        self.producers: set = set()

    def put(self, item, *a, **k) -> None:
        # a put into a queue with ONE producer is a left mover (it only enables
        # the reader): no scheduling point.  With a second producer the order of
        # the items depends on who comes first: a put by a thread other than the
        # queue's first producer is a scheduling point of its own.
        try:
            me_ = self.s.me().name
        except KeyError:
            me_ = None
        if me_ is not None:
            if self.producers and me_ not in self.producers or len(self.producers) > 1:
                self.producers.add(me_)
                self.s.yield_point('q.put-shared', self)
            else:
                self.producers.add(me_)
        self.items.append(item)
        self.history.append((self.s.next_seq(), item))
        try:
            # ... except against what the putter does to the log file next
            # (see CFile.write): remembered on the thread
            self.s.me().put_since_point = True
        except KeyError:
            pass

    def get(self, *a, **k):
        self.s.yield_point('q.get', self, lambda: len(self.items) > 0)
        return self.items.popleft()

    def empty(self) -> bool:
        return not self.items

    def qsize(self) -> int:
        return len(self.items)


class FakeTime:
    def __init__(self, sched: Sched):
        self.s = sched
        self.label = 'time'

    def sleep(self, seconds) -> None:
        self.s.yield_point('sleep', self)
        self.s.clock += float(seconds)

    def time(self) -> float:
        return self.s.clock


class Pipe:
    def __init__(self):
        self.buf = bytearray()
        self.late = bytearray()  # bytes still in transit: they arrive once the reader has
                                 # taken everything that is there and asks for more
        self.closed = False      # the writing end has been closed


class FakeConn:
    """One end of a connection.  recv() is a scheduling point only when it
    would block; sendall() never is (it only enables the peer)."""

    def __init__(self, sched: Sched, rx: Pipe, tx: Pipe, label: str, net: 'FakeNet'):
        self.s, self.rx, self.tx, self.label, self.net = sched, rx, tx, label, net
        self.sent: List[Tuple[int, bytes]] = []       # (seq, payload) of every sendall
        self.mangle: Optional[Callable[[bytes], bytes]] = None
        self.closed_by_me = False
        self.recv_after_eof = 0
        self.was_reset = False         # data was sent to a peer that had closed: RST
        self.observer: Optional[Callable[[bytes], None]] = None

    def makefile(self, mode='r', *a, **k):
        """socket.makefile: a buffered reader that takes whatever has arrived and
        keeps what it has not handed out in ITS OWN buffer (lost with it)."""
        conn = self
        # like the real socket: while a file object made from it is alive, close()
        # of the socket itself is deferred
        conn._io_refs = getattr(conn, '_io_refs', 0) + 1

        class _Reader:
            def __init__(self):
                self.buf = b''
                self.closed = False

            def readline(self, *a_):
                while b'\n' not in self.buf:
                    chunk = conn.recv(8192)
                    if not chunk:
                        break
                    self.buf += chunk
                k_ = self.buf.find(b'\n')
                line, self.buf = (self.buf, b'') if k_ < 0 else (self.buf[:k_ + 1], self.buf[k_ + 1:])
                return line if 'b' in mode else line.decode('utf-8')

            def read(self, n=-1):
                while n < 0 or len(self.buf) < n:
                    chunk = conn.recv(8192)
                    if not chunk:
                        break
                    self.buf += chunk
                out, self.buf = (self.buf, b'') if n < 0 else (self.buf[:n], self.buf[n:])
                return out if 'b' in mode else out.decode('utf-8')

            def close(self):
                if not self.closed:
                    self.closed = True
                    conn._io_refs -= 1
                    if conn._io_refs <= 0 and getattr(conn, '_close_pending', False):
                        conn._close_pending = False
                        conn.close()

            def __enter__(self):
                return self

            def __exit__(self, *e):
                self.close()
                return False
        return _Reader()

    def recv(self, n: int, *a) -> bytes:
        if not self.rx.buf and self.rx.late:
            # the next segment of the transport arrives
            self.rx.buf, self.rx.late = self.rx.late, bytearray()
        if not self.rx.buf and not self.rx.closed:
            t0 = self.s.clock
            self.s.yield_point('recv', self, lambda: bool(self.rx.buf) or bool(self.rx.late) or self.rx.closed)
            if not self.rx.buf and self.rx.late:
                self.rx.buf, self.rx.late = self.rx.late, bytearray()
            tmo = getattr(self, 'timeout', None)
            if tmo is not None and self.s.clock - t0 > tmo:
                # a time-out left on the socket: nothing arrived for that long
                # (virtual time: the server's sleeps and the seats' thinking time)
                raise TimeoutError('timed out')
        if self.rx.buf:
            out = bytes(self.rx.buf[:n])
            del self.rx.buf[:n]
            return out
        self.recv_after_eof += 1
        if self.recv_after_eof > 8:
            # a reader that keeps reading a closed stream: make it visible as a
            # scheduling point so that the session cannot run away
            self.s.yield_point('recv.eof-spin', self)
        return b''

    def sendall(self, data: bytes) -> None:
        if self.closed_by_me:
            raise OSError('send on a closed socket')
        if self.was_reset:
            raise BrokenPipeError(32, 'Broken pipe')
        if self.mangle is not None:
            data = self.mangle(data)
            if data is None:
                return
        if self.observer is not None:
            self.observer(bytes(data))
        self.sent.append((self.s.next_seq(), bytes(data)))
        seg = getattr(self.net, 'segment', None)
        if self.tx.late:
            self.tx.late.extend(data)          # behind what is still in transit
        elif seg is not None and len(data) > 1 and seg.random() < 0.5:
            # the transport delivers the data in two segments (a stream socket keeps
            # no message boundaries): cut between CR and LF, or anywhere
            k = data.rfind(b'\r') + 1 if (b'\r' in data and seg.random() < 0.7) else seg.randrange(1, len(data))
            k = min(max(k, 1), len(data) - 1)
            self.tx.buf.extend(data[:k])
            self.tx.late.extend(data[k:])
        else:
            self.tx.buf.extend(data)
        peer = getattr(self, 'peer', None)
        if peer is not None and peer.closed_by_me:
            # the peer has gone: the data is answered with a reset
            self.was_reset = True

    def send(self, data: bytes) -> int:
        self.sendall(data)
        return len(data)

    def close(self) -> None:
        if getattr(self, '_io_refs', 0) > 0:
            self._close_pending = True        # nothing happens on the wire yet
            return
        self.closed_by_me = True
        self.tx.closed = True

    def shutdown(self, *a) -> None:
        if self.was_reset:
            raise OSError(107, 'Transport endpoint is not connected')
        self.tx.closed = True

    def settimeout(self, t=None, *a) -> None:
        self.timeout = t

    def setsockopt(self, *a) -> None:
        pass


class CFile:
    """The output file of the table manager: the first write of a burst of
    writes (since the thread's last scheduling point) is a scheduling point -
    another thread, or an interrupt, may come between the manager's decision
    and what reaches the file."""

    def __init__(self, sched: Sched, f):
        self._s, self._f = sched, f
        self._last: Dict[str, int] = {}
        self.label = 'logfile'

    def write(self, data):
        try:
            me = self._s.me()
        except KeyError:
            return self._f.write(data)
        if self._last.get(me.name) != me.npoints or getattr(me, 'put_since_point', False):
            # first write of a burst, or the first write after the thread has
            # handed a message to another thread (which may act on it - tell a
            # seat that the session is over - before this reaches the file)
            me.put_since_point = False
            self._s.yield_point('file.write', self)
            self._last[me.name] = me.npoints
        return self._f.write(data)

    def __enter__(self):
        return self

    def __exit__(self, *exc):
        self._f.close()
        return False

    def __iter__(self):
        return iter(self._f)

    def __getattr__(self, name):
        return getattr(self._f, name)


class FakeSocket:
    """What socket.socket(AF_INET, SOCK_STREAM) returns under the baton."""

    def __init__(self, net: 'FakeNet'):
        self.net = net
        self.conn: Optional[FakeConn] = None
        self.listening = False
        self.label = 'listener'

    # server side
    def bind(self, addr) -> None:
        self.addr = addr
        self.port = addr[1]

    def listen(self, n=0) -> None:
        self.listening = True
        self.net.listener = self

    def accept(self):
        bl = self.net.backlog_of(getattr(self, 'port', 0))
        self.net.sched.yield_point('accept', self, lambda: len(bl) > 0)
        c = bl.popleft()
        self.net.accepted.append(c)
        return c, ('127.0.0.1', 0)

    # client side
    def connect(self, addr) -> None:
        self.conn = self.net.connect(addr[1] if isinstance(addr, tuple) else 0)
        self.conn.timeout = getattr(self, 'timeout', None)

    def recv(self, n, *a):
        return self.conn.recv(n)

    def sendall(self, data):
        return self.conn.sendall(data)

    def close(self) -> None:
        if self.conn is not None:
            self.conn.close()
        self.listening = False

    def setsockopt(self, *a) -> None:
        pass

    def settimeout(self, t=None, *a) -> None:
        self.timeout = t
        if self.conn is not None:
            self.conn.timeout = t


class FakeNet:
    """Stands for the `socket` module inside socket_interface.py."""
    AF_INET = 2
    SOCK_STREAM = 1
    SOL_SOCKET = 1
    SO_REUSEADDR = 2

    def __init__(self, sched: Sched):
        self.sched = sched
        self.backlogs: Dict[int, collections.deque] = {}
        self.accepted: List[FakeConn] = []
        self.client_ends: List[FakeConn] = []
        self.server_ends: List[FakeConn] = []
        self.listener: Optional[FakeSocket] = None
        self.nconn = 0

    def socket(self, *a, **k) -> FakeSocket:
        return FakeSocket(self)

    def backlog_of(self, port) -> collections.deque:
        return self.backlogs.setdefault(port, collections.deque())

    def connect(self, port: int = 2000) -> FakeConn:
        self.nconn += 1
        c2s, s2c = Pipe(), Pipe()
        cl = FakeConn(self.sched, s2c, c2s, f'conn{self.nconn}.client', self)
        sv = FakeConn(self.sched, c2s, s2c, f'conn{self.nconn}.server', self)
        cl.peer, sv.peer = sv, cl
        cl.port = sv.port = port
        self.client_ends.append(cl)
        self.server_ends.append(sv)
        self.backlog_of(port).append(sv)
        return cl


# --------------------------------------------------------------------------
# installing the controlled world around the real server
# --------------------------------------------------------------------------
def log_debug_on():
    """Root logger at DEBUG with a handler that formats every record and throws
    it away; returns what is needed to undo it."""
    import logging

    class Sink(logging.Handler):
        def emit(self, record):
            self.format(record)
    root = logging.getLogger()
    state = (root.level, list(root.handlers), logging.raiseExceptions, root.manager.disable)
    for h in list(root.handlers):
        root.removeHandler(h)
    h = Sink()
    h.setFormatter(logging.Formatter('%(asctime)s %(name)s %(levelname)s %(message)s'))
    root.addHandler(h)
    root.setLevel(logging.DEBUG)
    logging.raiseExceptions = False
    logging.disable(logging.NOTSET)
    return state


def log_debug_off(state) -> None:
    import logging
    root = logging.getLogger()
    for h in list(root.handlers):
        root.removeHandler(h)
    for h in state[1]:
        root.addHandler(h)
    root.setLevel(state[0])
    logging.raiseExceptions = state[2]
    logging.disable(state[3])


class World:
    """Context manager: patches the module globals of the real code."""

    def __init__(self, sched: Sched, debug_logging: bool = False):
        self.sched = sched
        self.debug_logging = debug_logging
        self.net = FakeNet(sched)
        self.saved: List[Tuple[Any, str, Any]] = []
        self.player_threads: List[Any] = []

    def _set(self, obj, name, value):
        self.saved.append((obj, name, getattr(obj, name, None)))
        setattr(obj, name, value)

    def __enter__(self):
        import logging
        from bridge_env.network_bridge import client as cmod
        from bridge_env.network_bridge import server as smod
        from bridge_env.network_bridge import socket_interface as imod
        sched, world = self.sched, self
        self._log_disable = logging.root.manager.disable
        self._log_state = None
        if self.debug_logging:
            # the command line of server and client switches DEBUG logging on
            # (logging.basicConfig(level=DEBUG)): every log statement of the
            # library is then evaluated and formatted (into a sink)
            self._log_state = log_debug_on()
        else:
            logging.disable(logging.CRITICAL)
        nq = [0]
        seat_names = ['N', 'E', 'S', 'W']

        def mk_queue(*a, **k):
            # Server.__init__ creates sent queues N,E,S,W then received N,E,S,W
            k_ = nq[0]
            nq[0] += 1
            kind = 'to' if (k_ // 4) % 2 == 0 else 'from'
            return CQueue(sched, f'q.{kind}.{seat_names[k_ % 4]}')
        ne = [0]

        def mk_event(*a, **k):
            ne[0] += 1
            return CEvent(sched, f'event{ne[0]}')
        self._set(smod, 'Queue', mk_queue)
        self._set(smod, 'Event', mk_event)
        if hasattr(smod, 'Barrier'):
            self._set(smod, 'Barrier', lambda n, *a, **k: CBarrier(sched, n))
        self._set(smod, 'time', FakeTime(sched))
        self._set(imod, 'socket', self.net)
        self._set(cmod, 'print', lambda *a, **k: None)
        import builtins as _builtins
        self._set(smod, 'open', lambda *a, **k: CFile(sched, _builtins.open(*a, **k)))
        # an interrupt of "the main thread" is an interrupt of the thread that
        # runs Server.run, not of the harness
        import _thread
        import signal as _signal

        def interrupt_main(*a, **k):
            me = sched.me()
            tgt = next((t for t in sched.threads if t.name.startswith('main') and t.state != 'done'), None)
            if tgt is None:
                return
            if tgt is me:
                raise KeyboardInterrupt()
            sched.inject[(tgt.name, tgt.npoints + 1)] = KeyboardInterrupt()
        real_im, real_rs = _thread.interrupt_main, _signal.raise_signal
        self._set(_thread, 'interrupt_main', interrupt_main)
        self._set(_signal, 'raise_signal', lambda *a, **k: interrupt_main())
        # ... also where the real code bound them by name when it was imported
        for mod in (smod, cmod, imod):
            for name, v in list(vars(mod).items()):
                if v is real_im or v is real_rs:
                    self._set(mod, name, interrupt_main)
        # primitives that exist already (created when the module was imported:
        # class attributes, module globals - one per process, shared by every
        # Server object) are put under the scheduler for the session as well
        import queue as _queue
        import threading as _threading

        def controlled(v, label):
            if isinstance(v, _queue.Queue):
                return CQueue(sched, label)
            if isinstance(v, _threading.Event):
                return CEvent(sched, label)
            if isinstance(v, _threading.Barrier):
                return CBarrier(sched, v.parties)
            return None

        def adopt(owner):
            for name, v in list(vars(owner).items()):
                if name.startswith('__'):
                    continue
                lab = f'shared.{getattr(owner, "__name__", "obj")}.{name}'
                c = controlled(v, lab)
                if c is not None:
                    self._set(owner, name, c)
                elif isinstance(v, dict) and v and any(controlled(x, '') is not None for x in v.values()):
                    self._set(owner, name, {k_: (controlled(x, f'{lab}.{getattr(k_, "name", k_)}') or x)
                                            for k_, x in v.items()})
                elif isinstance(v, list) and v and any(controlled(x, '') is not None for x in v):
                    self._set(owner, name, [controlled(x, f'{lab}.{j}') or x for j, x in enumerate(v)])
        for mod in (smod, cmod, imod):
            adopt(mod)
            for v in list(vars(mod).values()):
                if isinstance(v, type) and v.__module__ == mod.__name__:
                    adopt(v)
        def record_signal(signum, handler):
            old_ = sched.signal_disposition.get(int(signum), _signal.default_int_handler)
            sched.signal_disposition[int(signum)] = handler
            return old_
        self._set(_signal, 'signal', record_signal)

        # threads other than the player threads that the program starts
        # (Thread(target=...)): controlled like the rest
        nthreads = [0]

        class ControlledThread:
            def __init__(self_, group=None, target=None, name=None, args=(), kwargs=None, *, daemon=None):
                if isinstance(self_, _threading.Thread):
                    # `Thread.__init__(self, ...)` written out in a subclass of the real class
                    _threading.Thread.__init__(self_, group=group, target=target, name=name, args=args,
                                               kwargs=kwargs, daemon=daemon)
                    return
                self_._target, self_._args, self_._kwargs = target, args, kwargs or {}
                self_.daemon = daemon
                self_.name = name or f'Thread-x{nthreads[0]}'
                self_._ct = None

            def run(self_):
                if self_._target is not None:
                    self_._target(*self_._args, **self_._kwargs)

            def start(self_):
                sched.yield_point('thread.start', None)
                nthreads[0] += 1
                self_._ct = sched.spawn(f'worker{nthreads[0]}', self_.run)

            def is_alive(self_):
                sched.yield_point('is_alive', None)
                return self_._ct is not None and self_._ct.state != 'done'

            def join(self_, timeout=None):
                if self_._ct is None:
                    raise RuntimeError('cannot join thread before it is started')
                if timeout is not None:
                    sched.yield_point('join.timeout', None)
                    return
                sched.yield_point('join', None, lambda: self_._ct.state == 'done')
        for mod in (smod, cmod):
            if getattr(mod, 'Thread', None) is _threading.Thread:
                self._set(mod, 'Thread', ControlledThread)
            if getattr(mod, 'threading', None) is _threading:
                class _T:                      # the module object, with Thread replaced
                    def __getattr__(self_, n):
                        return ControlledThread if n == 'Thread' else getattr(_threading, n)
                self._set(mod, 'threading', _T())
        PT = smod.PlayerThread

        def start(pt):
            sched.yield_point('thread.start', None)      # yield, then act
            ct = sched.spawn(f'seat{len(world.player_threads)}', pt.run)
            pt._baton = ct
            world.player_threads.append(pt)

        def is_alive(pt):
            sched.yield_point('is_alive', None)
            return pt._baton.state != 'done'

        def join(pt, timeout=None):
            if timeout is not None:
                # a bounded wait may give up at any moment the scheduler likes
                sched.yield_point('join.timeout', None)
                return
            sched.yield_point('join', None, lambda: pt._baton.state == 'done')
        self._set(PT, 'start', start)
        self._set(PT, 'is_alive', is_alive)
        self._set(PT, 'join', join)
        return self

    def __exit__(self, *exc):
        import logging
        for obj, name, old in reversed(self.saved):
            if old is None and name in ('print', 'open'):
                try:
                    delattr(obj, name)
                except AttributeError:
                    pass
            else:
                setattr(obj, name, old)
        if self._log_state is not None:
            log_debug_off(self._log_state)
        logging.disable(self._log_disable)
        return False
