"""C17 (board-settings files: JSON half via jsonlog, PBN half here) and C18
(PBN export read back) against Pbn.tla / PbnTrace.tla."""
from __future__ import annotations

import datetime
import io
import json
import os
from typing import Any, Dict, List, Optional, Tuple

from . import tlc
from .core import (Check, MachineryError, design_check, pmap, report_rejects,
                   rng, seed, validate_traces)
from .jsonlog import RecIO, proj_setting, run_into as json_run_into
from .play import card, cnum, cards_sorted, make_hands, random_deal, shaped_deal

NOCALL, NOSEAT = 38, 4
ID_ALPHABET = ("abcdefghijklmnopqrstuvwxyzABCDEFGHIJKLMNOPQRSTUVWXYZ0123456789"
               " .,-_/()'+#:")
VUL_SPELL = [['None', 'Love', '-'], ['NS'], ['EW'], ['Both', 'All']]
MANDATORY = ['Event', 'Site', 'Date', 'Board', 'West', 'North', 'East', 'South',
             'Dealer', 'Vulnerable', 'Deal', 'Scoring', 'Declarer', 'Contract',
             'Result']


def _imp():
    from bridge_env import Bid, Contract, Hands, Player, Vul
    return Bid, Contract, Hands, Player, Vul


def rand_name(r, maxlen=14, minlen=1) -> str:
    n = r.randrange(minlen, maxlen)
    s = ''.join(r.choice(ID_ALPHABET) for _ in range(n))
    if maxlen < 100 and r.random() < 0.12:      # runs of spaces, inside or at an end
        k = r.randrange(0, len(s) + 1)
        s = s[:k] + ' ' * r.randrange(2, 4) + s[k:]
    return s


def pbn_cfg(skip=True, sep=True, maxgames=3, b0=(0, 1, 2), mid=(1, 2, 3), be=(0, 1, 2),
            headers=(0, 2), orders=24, invs=(), comments=('none',), col0=False):
    return tlc.cfg_text(specification='Spec',
                        constants={'SkipEmptyGames': 'TRUE' if skip else 'FALSE',
                                   'GameSeparator': 'TRUE' if sep else 'FALSE',
                                   'MaxGames': str(maxgames),
                                   'Blanks0': tlc.tla_set(b0), 'BlanksMid': tlc.tla_set(mid),
                                   'BlanksEnd': tlc.tla_set(be), 'Headers': tlc.tla_set(headers),
                                   'Orders': str(orders),
                                   'Col0Comments': 'TRUE' if col0 else 'FALSE',
                                   'CommentStyles': '{' + ', '.join(f'"{c}"' for c in comments) + '}'},
                        invariants=invs)


# --------------------------------------------------------------------------
# C17: rendering of an abstract layout and parsing with the real parser
# --------------------------------------------------------------------------
def render_job(job) -> Tuple[List[Dict[str, Any]], List[Dict[str, Any]]]:
    """Returns (events, mismatches) for a list of layouts."""
    Bid, Contract, Hands, Player, Vul = _imp()
    from bridge_env.data_handler.pbn_handler.parser import PbnParser
    tid0, layouts, sd, workdir = job
    evs: List[Dict[str, Any]] = []
    bad: List[Dict[str, Any]] = []
    shared_parser = PbnParser()       # one parser object reads many files
    for li, lay in enumerate(layouts):
        tid = f'{tid0}.{li}'
        r = rng('pbn', sd, tid)
        lines = lay['lines']
        ngames = len(lay['expect'])
        boards = []
        symmap: Dict[str, str] = {}
        for g in range(1, ngames + 1):
            dl = shaped_deal(r) if r.random() < 0.3 else random_deal(r)
            dealer, v, first = r.randrange(4), r.randrange(4), r.randrange(4)
            bid_ = rand_name(r)
            if boards and r.random() < 0.15:
                bid_ = boards[r.randrange(len(boards))]['id']     # two boards with the same id
            elif r.random() < 0.06:
                bid_ = r.choice(['#', '##', '# ', '-', '?', '#7'])   # signs other PBN tools give a meaning to
            boards.append({'deal': dl, 'dealer': dealer, 'vul': v, 'id': bid_, 'first': first})
            symmap[f'Board{g}'] = bid_
            symmap[f'Deal{g}'] = make_hands(dl).to_pbn(Player(first + 1))
            symmap[f'Dealer{g}'] = 'NESW'[dealer]
            symmap[f'Vulnerable{g}'] = r.choice(VUL_SPELL[v])
            for t in ('Event', 'Site', 'Scoring'):
                symmap[f'{t}{g}'] = rand_name(r)
            symmap[f'ignored{g}'] = rand_name(r) + '!'
        eol = r.choice(['\n', '\r\n'])
        semi = r.random() < 0.5
        text_lines = []
        conc: List[Dict[str, Any]] = []
        for l in lines:
            k = l['k']
            if k == 'blank':
                text_lines.append((r.choice([' ', '\t', '  ']) if semi and r.random() < 0.6 else '') + eol)
                conc.append({'k': 'blank'})
            elif k == 'pct':
                text_lines.append(r.choice(['% PBN 2.1', '% EXPORT', '% comment here']) + eol)
                conc.append({'k': 'pct'})
            elif k == 'row':
                text_lines.append(r.choice(['N NT 7', 'S H 10', 'E C 3']) + eol)
                conc.append({'k': 'row'})
            elif k == 'tagc':
                val = symmap.get(l['val'], l['val'])
                tail = {'semi': ' ; see [Board "not this"] ',
                        'brace': ' { note [Board "nor this"] }',
                        'open': ' { a comment starts here'}[l['tail']]
                text_lines.append(f'[{l["name"]} "{val}"]' + tail + eol)
                conc.append({'k': 'tagc', 'name': l['name'], 'val': val, 'tail': l['tail']})
            elif k == 'open0':
                text_lines.append('{ a comment from the first column' + eol)
                conc.append({'k': 'open0'})
            elif k == 'ctext':
                look = l['look']
                text_lines.append({'blank': r.choice(['', ' ', '\t']), 'pct': '% PBN 2.1',
                                   'tag': f'[{l["name"]} "{l["val"]}"]',
                                   'text': 'some words of commentary'}[look] + eol)
                conc.append({'k': 'ctext', 'look': look, 'name': l['name'], 'val': l['val']})
            elif k == 'close':
                th = l['then']
                if th['k'] == 'none':
                    text_lines.append('the comment ends }' + eol)
                    conc.append({'k': 'close', 'then': {'k': 'none'}})
                else:
                    val = symmap.get(th['val'], th['val'])
                    text_lines.append(f'the comment ends }} [{th["name"]} "{val}"]' + eol)
                    conc.append({'k': 'close', 'then': {'k': 'tag', 'name': th['name'], 'val': val}})
            else:
                val = symmap.get(l['val'], l['val'])
                text_lines.append(f'[{l["name"]} "{val}"]' + eol)
                conc.append({'k': 'tag', 'name': l['name'], 'val': val})
        text = ''.join(text_lines)
        expect = [{n: symmap.get(v, v) for (n, v) in g} for g in lay['expect']]
        via_file = (li % 5 == 0)

        def source():
            if via_file:
                p = os.path.join(workdir, f'{tid}.pbn')
                with open(p, 'w', newline='') as fw:
                    fw.write(text)
                return open(p, 'r')
            return io.StringIO(text)
        e: Dict[str, Any] = {'tid': tid, 'ev': 'parse', 'lines': conc, 'out': [],
                             'raised': False, 'eol': 'CRLF' if eol == '\r\n' else 'LF',
                             'via': 'file' if via_file else 'stringio'}
        games = None
        try:
            if li % 6 == 1:
                # the shared parser object was last used on a file that was NOT
                # read to its end (a caller that peeks at the first game, or an
                # error in the middle of a file)
                try:
                    g = shared_parser.parse_stream(io.StringIO(
                        '[Board "stale"]\n[Dealer "N"]\n\n[Board "stale2"]\n[Dealer "E"]\n'))
                    next(g)
                    if li % 12 == 1:
                        shared_parser.parse_board_settings(io.StringIO(
                            '[Board "nodeal"]\n[Dealer "N"]\n\n[Board "x"]\n'))
                except Exception:  # noqa
                    pass
            with source() as fp:
                # every other file is read by a parser object that has read
                # other files before
                games = (shared_parser if li % 2 else PbnParser()).parse_all(fp)
            e['out'] = [[[k, v] for k, v in g.items()] for g in games]
            e['reused_parser'] = bool(li % 2)
        except Exception as ex:  # noqa
            e['raised'] = True
            e['msg'] = f'{type(ex).__name__}: {ex}'[:120]
        evs.append(e)
        if games is not None and games != expect:
            bad.append({'what': 'parse_all', 'text': text, 'expected': expect,
                        'observed': games, 'meta': lay.get('meta')})
        e2: Dict[str, Any] = {'tid': tid + 's', 'ev': 'settings', 'raised': False,
                              'tags': [{'deal': symmap[f'Deal{g}'], 'first': boards[g - 1]['first'],
                                        'dealer': symmap[f'Dealer{g}'],
                                        'vul': symmap[f'Vulnerable{g}'],
                                        'board': symmap[f'Board{g}']}
                                       for g in range(1, ngames + 1)],
                              'out': []}
        try:
            with source() as fp:
                bs = PbnParser().parse_board_settings(fp)
            e2['out'] = [proj_setting(b) for b in bs]
            for o in e2['out']:
                o['id'] = ''.join(chr(c) for c in o['id'])
            want = [(sorted(map(sorted, b['deal'])) and [sorted(h) for h in b['deal']],
                     b['dealer'], b['vul'], b['id']) for b in boards]
            got = [(o['deal'], o['dealer'], o['vul'], o['id']) for o in e2['out']]
            if want != got:
                bad.append({'what': 'parse_board_settings', 'text': text,
                            'expected': want, 'observed': got, 'meta': lay.get('meta')})
        except Exception as ex:  # noqa
            e2['raised'] = True
            e2['msg'] = f'{type(ex).__name__}: {ex}'[:120]
            bad.append({'what': 'parse_board_settings raised', 'text': text,
                        'msg': e2['msg'], 'meta': lay.get('meta')})
        evs.append(e2)
        if via_file:
            try:
                os.unlink(os.path.join(workdir, f'{tid}.pbn'))
            except OSError:
                pass
    return evs, bad


def random_layout(r) -> Dict[str, Any]:
    """Seeded layouts beyond the bound explored by TLC (more games, any tag
    order, several extra sections)."""
    n = r.randrange(0, 7)
    lines: List[Dict[str, Any]] = [{'k': 'pct'}] * r.randrange(0, 3)
    lines += [{'k': 'blank'}] * r.randrange(0, 3)
    expect = []
    for g in range(1, n + 1):
        req = ['Board', 'Deal', 'Dealer', 'Vulnerable']
        r.shuffle(req)
        game = [[t, f'{t}{g}'] for t in req]
        glines = [{'k': 'tag', 'name': t, 'val': f'{t}{g}'} for t in req]
        for t in r.sample(['Event', 'Site', 'Scoring'], r.randrange(0, 3)):
            pos = r.randrange(0, len(glines) + 1)
            glines.insert(pos, {'k': 'tag', 'name': t, 'val': f'{t}{g}'})
            game.append([t, f'{t}{g}'])
        if r.random() < 0.3:
            glines += [{'k': 'tag', 'name': 'OptimumResultTable', 'val': 'Declarer;Denomination'}] + \
                      [{'k': 'row'}] * r.randrange(1, 4)
            game.append(['OptimumResultTable', 'Declarer;Denomination'])
        if r.random() < 0.2:
            glines.append({'k': 'tag', 'name': r.choice(req), 'val': f'ignored{g}'})
        if r.random() < 0.3:
            # additional tags whose names begin or end like the required ones (other
            # PBN tools write such tags), standing BEFORE the tag they resemble
            for nm in r.sample(['DealId', 'BoardTitle', 'DealerNote', 'VulnerableSide', 'Dealt', 'XBoard',
                                'PreDeal', 'Boards'], r.randrange(1, 3)):
                like = [j for j, gl in enumerate(glines)
                        if gl['k'] == 'tag' and gl['name'].lower() in nm.lower()]
                pos = like[0] if like and r.random() < 0.7 else r.randrange(0, len(glines) + 1)
                v_ = 'look' + str(r.randrange(100))
                glines.insert(pos, {'k': 'tag', 'name': nm, 'val': v_})
                game.append([nm, v_])
        if r.random() < 0.2:
            # an additional tag whose line is as long as the format allows, or a
            # multiple of it, give or take one (readers that take a line in pieces)
            L = r.choice([253, 254, 255, 256, 509, 510, 511, 765])
            val = ''.join(r.choice('abcdefghij klmnop') for _ in range(L - 10)).strip() or 'x'
            val = (val + 'q' * (L - 10))[:L - 10]
            if val[0] == ' ' or val[-1] == ' ':
                val = 'q' + val[1:-1] + 'q'
            pos = r.randrange(0, len(glines) + 1)
            glines.insert(pos, {'k': 'tag', 'name': 'Annot', 'val': val})
            game.append(['Annot', val])
        lines += glines
        expect.append(game)
        if g < n:
            lines += [{'k': 'blank'}] * r.randrange(1, 4)
    lines += [{'k': 'blank'}] * r.randrange(0, 3)
    return {'lines': lines, 'expect': expect, 'meta': {'seeded': True, 'n': n}}


def pbn_half_c17(chk: Check, tier: str) -> None:
    quick = tier == 'quick'
    r = rng('c17pbn')
    invs = ['ParsesBack', 'WriterParsesBack']
    if quick:
        kw = dict(maxgames=2, b0=(0, 2), mid=(1, 2), be=(0, 1), headers=(0, 2), orders=6)
    else:
        kw = dict(maxgames=3, orders=24)
    design_check(chk, 'Pbn', pbn_cfg(invs=invs, **kw),
                 'Pbn: every generated import layout parses back to its games',
                 constants=str(kw), workers=8)
    design_check(chk, 'Pbn', pbn_cfg(skip=False, maxgames=1, orders=1, invs=['ParsesBack']),
                 'Pbn regression (pinned parser yields empty games)',
                 constants='SkipEmptyGames=FALSE', expect_violation='ParsesBack', workers=2)
    res = tlc.run_tlc('Pbn', pbn_cfg(invs=['Export'], **kw), workers=1,
                      name='pbn-export', timeout=3000, long_run=True)
    tlc.require_clean(res, 'pbn export')
    if res.violated:
        raise MachineryError(res.error_text[:2000])
    chk.add_tlc(res, 'export of every generated layout')
    layouts = list(res.json_lines)
    if len(layouts) != res.distinct:
        raise MachineryError(f'exported {len(layouts)} layouts for {res.distinct} states')
    layouts += [random_layout(r) for _ in range(200 if quick else 8000)]
    wd = tlc.fresh('pbnfiles')
    wd.mkdir(parents=True)
    per = 120
    jobs = [(f'L{a}', layouts[a:a + per], seed(), str(wd)) for a in range(0, len(layouts), per)]
    events: List[Dict[str, Any]] = []
    for evs, bad in pmap(render_job, jobs):
        events.extend(evs)
        for b in bad:
            chk.violation(f'pbn:replay:{b["what"]}:{json.dumps(b.get("meta"), sort_keys=True)[:120]}',
                          f'real PbnParser on a generated layout: {b["what"]} gave '
                          f'{str(b.get("observed", b.get("msg")))[:300]} expected '
                          f'{str(b.get("expected"))[:300]}',
                          {'kind': 'pbn-layout', **b})
    for e in events:
        chk.evaluations += 1
        if e['ev'] == 'parse' and any(l['k'] == 'tag' for l in e['lines']):
            chk.distinct.add(hash(json.dumps(e['lines'])))
    chk.sample({'layout': layouts[len(layouts) // 3]})
    chk.sample(events[2])
    chk.extra['pbn_layouts'] = len(layouts)
    rejects = validate_traces(chk, 'PbnTrace', events, 'real PbnParser vs Pbn!ParseFile')
    report_rejects(chk, rejects, 'pbn', key_of=lambda x: f'pbn:{x.clause}')


def run_c17(pid: str, tier: str) -> int:
    chk = Check(pid, tier)
    chk.rule = ('a case is one board-settings file (JSON writer session or '
                'rendered PBN layout) read by the real parser; '
                'distinct_nontrivial counts distinct files with at least one board')
    json_run_into(chk, ['board_settings'], tier)
    pbn_half_c17(chk, tier)
    return chk.finish()


# --------------------------------------------------------------------------
# C18
# --------------------------------------------------------------------------
def rand_result(r, long_names=False):
    Bid, Contract, Hands, Player, Vul = _imp()
    from bridge_env.data_handler.pbn_handler.writer import Scoring
    dl = shaped_deal(r) if r.random() < 0.3 else random_deal(r)
    dealer, v = r.randrange(4), r.randrange(4)
    po = r.random() < 0.2
    if po:
        contract = Contract(r.choice([None, Bid.Pass]), vul=Vul(v + 1))
        tricks = None
    else:
        x, xx = r.choice([(False, False), (True, False), (True, True), (False, True)])
        contract = Contract(Bid.int_to_bid(r.randrange(35)), x=x, xx=xx, vul=Vul(v + 1),
                            declarer=Player(r.randrange(4) + 1))
        tricks = r.choice([0, 13, r.randrange(14)])
    ml = 300 if long_names else 14
    names = {k: rand_name(r, ml, ml - 1 if long_names else 1)
             for k in ('event', 'site', 'west', 'north', 'east', 'south')}
    if not long_names:
        u = r.random()
        if u < 0.15:
            # the same name at several seats (one program playing both hands of a
            # side, or all four), the same text as event and site
            names['south'] = names['north']
            if r.random() < 0.5:
                names['west'] = names['east'] = names['north']
            if r.random() < 0.3:
                names['site'] = names['event']
        elif u < 0.3:
            # values that begin like the format's own marks ('#' and '##' head special
            # values in import files; a writer writes names verbatim)
            for k_ in r.sample(sorted(names), r.randrange(1, 4)):
                names[k_] = r.choice(['##', '#', '##1 (Team #7)', '## Finals', '#1', '?', '-', '%', ';x', '{y}',
                                      '[Z', 'a]', '!', '$1', '^', '~']) + (rand_name(r, 6) if r.random() < 0.5 else '')
    date = datetime.date(r.randrange(1000, 3000), r.randrange(1, 13), r.randrange(1, 29))
    if r.random() < 0.25:
        # a datetime is a date too (datetime.now() is what a caller has at hand)
        date = datetime.datetime(date.year, date.month, date.day, r.randrange(24), r.randrange(60),
                                 r.randrange(60), r.randrange(1000000) if r.random() < 0.5 else 0)
    board = r.randrange(1, 6) if r.random() < 0.7 else r.randrange(1, 1000)
    scoring = r.choice(list(Scoring))
    kw = dict(event=names['event'], site=names['site'], date=date, board_num=board,
              west_player=names['west'], north_player=names['north'],
              east_player=names['east'], south_player=names['south'],
              dealer=Player(dealer + 1), deal=make_hands(dl), scoring=scoring,
              contract=contract, taken_tricks=tricks)
    fb = contract.final_bid
    rec = dict(names)
    rec.update({'date': [date.year, date.month, date.day], 'board': board, 'dealer': dealer,
                'deal': [sorted(h) for h in dl], 'scoring': scoring.value,
                'contract': {'bid': NOCALL if fb is None else fb.idx, 'x': bool(contract.x),
                             'xx': bool(contract.xx), 'vul': v,
                             'decl': NOSEAT if contract.declarer is None else contract.declarer.value - 1},
                'tricks': 0 if tricks is None else tricks})
    return kw, rec


def c18_session(job) -> List[Dict[str, Any]]:
    Bid, Contract, Hands, Player, Vul = _imp()
    from bridge_env.data_handler.pbn_handler.parser import PbnParser
    from bridge_env.data_handler.pbn_handler.writer import PbnWriter
    tid, n, sd, long_names = job
    r = rng('c18', sd, tid)
    sink = RecIO()
    wr = PbnWriter(sink)
    fresh_writer_each = (not long_names) and r.random() < 0.3   # e.g. a file opened in append mode
    evs: List[Dict[str, Any]] = []
    written = []
    chunks_all: List[str] = []
    header = r.random() < 0.3
    if header:
        wr.write_header()
        chunks_all += sink.take()
    for k in range(n):
        kw, rec = rand_result(r, long_names)
        if not long_names and r.random() < 0.25:
            # a tag pair that exactly fills a line: '[South "..."]' + newline = 253..255
            want = r.choice([253, 254, 255])
            ln = want - len('[South ""]\n')
            nm = rand_name(r, ln + 1, ln)
            nm = (nm + 'x' * ln)[:ln].rstrip() or 'x' * ln
            nm = (nm + 'x' * ln)[:ln]
            kw['south_player'] = nm
            rec['south'] = nm
        if r.random() < 0.4:
            # the deal has been shown from another seat before it is exported
            try:
                kw['deal'].to_pbn(Player(r.randrange(4) + 1))
            except Exception:  # noqa
                pass
        e: Dict[str, Any] = {'tid': f'{tid}.w{k}', 'ev': 'longline' if long_names else 'write',
                             'rec': rec, 'raised': False}
        if fresh_writer_each:
            wr = PbnWriter(sink)
        try:
            wr.write_board_result(**kw)
        except Exception as ex:  # noqa
            e['raised'] = True
            e['msg'] = f'{type(ex).__name__}: {ex}'[:120]
        ch = sink.take()
        chunks_all += ch
        e['lines'] = [{'text': c if not long_names else c[:20], 'len': len(c)} for c in ch]
        evs.append(e)
        written.append(rec)
    if long_names:
        return evs
    text = ''.join(chunks_all)
    e = {'tid': f'{tid}.rb', 'ev': 'readback', 'written': written, 'games': [],
         'raised': False, 'header': header}
    games = None
    try:
        reader = PbnParser()
        how = sum(map(ord, str(tid))) % 3
        if how == 1:
            # the parser object has read another export before, to its end
            reader.parse_all(io.StringIO('[Event "old"]\n[Board "77"]\n[Dealer "S"]\n\n'))
        elif how == 2:
            # ... or only peeked at its first game / gave up on a damaged game
            try:
                next(reader.parse_stream(io.StringIO(
                    '[Event "old"]\n[Site "old site"]\n[Board "77"]\n[West "w"]\n[Dealer "S"]\n'
                    '[Declarer "W"]\n[Contract "7NTXX"]\n[Result "0"]\n\n[Event "old2"]\n[Board "78"]\n')))
                reader.parse_board_settings(io.StringIO('[Board "nodeal"]\n[Dealer "N"]\n\n[Board "x"]\n'))
            except Exception:  # noqa
                pass
        # every 4th export reaches the parser with CR LF line ends (the file was
        # written in the text mode of a platform that does so, and is read as it is)
        if sum(map(ord, str(tid))) % 4 == 1:
            text = text.replace('\r\n', '\n').replace('\n', '\r\n')
        games = reader.parse_all(io.StringIO(text))
        e['games'] = [[[k, v] for k, v in g.items()] for g in games]
        e['reader'] = ['fresh', 'reused', 'reused-after-abandoned-stream'][how]
    except Exception as ex:  # noqa
        e['raised'] = True
        e['msg'] = f'{type(ex).__name__}: {ex}'[:120]
    evs.append(e)
    if games is not None and len(games) == n:
        e2 = {'tid': f'{tid}.st', 'ev': 'settings', 'raised': False, 'out': [],
              'tags': [{'deal': g.get('Deal', ''), 'first': w['dealer'],
                        'dealer': g.get('Dealer', ''), 'vul': g.get('Vulnerable', ''),
                        'board': g.get('Board', '')} for g, w in zip(games, written)]}
        try:
            bs = PbnParser().parse_board_settings(io.StringIO(text))
            e2['out'] = [proj_setting(b) for b in bs]
            for o, w in zip(e2['out'], written):
                o['id'] = ''.join(chr(c) for c in o['id'])
                # the recovered deal must be the deal that was written
                o['types_ok'] = o['types_ok'] and o['deal'] == w['deal'] and \
                    o['dealer'] == w['dealer'] and o['vul'] == w['contract']['vul']
        except Exception as ex:  # noqa
            e2['raised'] = True
            e2['msg'] = f'{type(ex).__name__}: {ex}'[:120]
        evs.append(e2)
    return evs


def run_c18(pid: str, tier: str) -> int:
    chk = Check(pid, tier)
    quick = tier == 'quick'
    chk.rule = ('a case is one sequence of 1..5 board results written by the '
                'real PbnWriter and read back by the real PbnParser; '
                'distinct_nontrivial counts distinct written results')
    chk.assumptions = ['names are drawn from the stated alphabet; runs of several '
                       'spaces inside a name are included',
                       'TLC, SANY, Json community module']
    design_check(chk, 'Pbn', pbn_cfg(maxgames=1, orders=1, invs=['WriterParsesBack', 'ParsesBack']),
                 'Pbn: n written results are read back as n games (symbolic values)',
                 constants='GameSeparator=TRUE', workers=2)
    design_check(chk, 'Pbn', pbn_cfg(sep=False, maxgames=0, orders=1, invs=['WriterParsesBack']),
                 'Pbn regression (pinned writer: no game separator)',
                 constants='GameSeparator=FALSE', expect_violation='WriterParsesBack', workers=2)
    nses = 80 if quick else 4000
    jobs = [(f's{k}', 1 + k % 5, seed(), False) for k in range(nses)]
    jobs += [(f'x{k}', 2, seed(), True) for k in range(5 if quick else 100)]
    events: List[Dict[str, Any]] = []
    for evs in pmap(c18_session, jobs, chunk=8):
        events.extend(evs)
    for e in events:
        chk.evaluations += 1
        if e['ev'] == 'write':
            chk.distinct.add(hash(json.dumps(e['rec'], sort_keys=True)))
    chk.sample(events[0])
    chk.sample([e for e in events if e['ev'] == 'readback'][1])
    chk.extra['events'] = len(events)
    chk.extra['sessions'] = len(jobs)
    rejects = validate_traces(chk, 'PbnTrace', events, 'real PbnWriter / PbnParser vs Pbn.tla')
    report_rejects(chk, rejects, 'pbn', key_of=lambda x: f'pbn:{x.clause}')
    return chk.finish()


def run(pid: str, tier: str) -> int:
    return run_c17(pid, tier) if pid == 'C17' else run_c18(pid, tier)
