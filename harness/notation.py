"""C14 (deal encodings), C15 (notations) and the message half of C19,
validated by NotationTrace.tla against Notation.tla."""
from __future__ import annotations

import pathlib
import random as _random
from typing import Any, Callable, Dict, List, Optional, Sequence

from . import tlc
from .core import (Check, MachineryError, design_check, pmap, report_rejects,
                   rng, seed, validate_traces)
from .play import card, cnum, cards_sorted, make_hands, random_deal, shaped_deal

NOCALL, NOSEAT = 38, 4


def _imp():
    from bridge_env import Bid, Card, Contract, Hands, Pair, Player, Suit, Vul
    return Bid, Card, Contract, Hands, Pair, Player, Suit, Vul


class Rec:
    """Collects events; every call is guarded so that an exception becomes
    raised=True instead of stopping the driver."""

    def __init__(self, prefix: str):
        self.evs: List[Dict[str, Any]] = []
        self.prefix = prefix

    def add(self, fn: str, args: Dict[str, Any], compute: Callable[[], Dict[str, Any]]):
        e: Dict[str, Any] = {'tid': f'{self.prefix}{len(self.evs)}', 'ev': 'conv',
                             'fn': fn}
        e.update(args)
        try:
            e.update(compute())
            e['raised'] = False
        except Exception as ex:  # noqa
            e['raised'] = True
            e['msg'] = f'{type(ex).__name__}: {ex}'[:100]
        self.evs.append(e)


def seatv(p) -> int:
    return NOSEAT if p is None else p.value - 1


# --------------------------------------------------------------------------
# C15
# --------------------------------------------------------------------------
def c15_events() -> List[Dict[str, Any]]:
    """Two passes over the complete domains in one process; between them every
    decoder is offered a few malformed texts (results ignored): what a
    converter did before - a first use, a refused input - must not matter."""
    Bid, Card, Contract, Hands, Pair, Player, Suit, Vul = _imp()
    first = c15_pass('n')
    for fn, bad in ((Bid.str_to_bid, ['8C', '0NT', '1X', '', 'pass', '1c']),
                    (Card.str_to_card, ['X2', 'C1', 'CAA', '', 'c2']),
                    (Vul.str_to_vul, ['none', 'NSEW', '', 'love']),
                    (Player.convert_formal_name, ['north', 'N', '']),
                    (Card.rank_str_to_int, ['x', '']),
                    (lambda t: Contract.str_to_contract(t), ['8C', '1CXXX', '', 'passed_out'])):
        for b in bad:
            try:
                fn(b)
            except Exception:  # noqa
                pass
    # ... and the library is used for other things (a board is dealt, played)
    try:
        h = Hands.generate_random_hands()
        h.to_pbn()
        Hands.convert_binary(h.to_binary())
    except Exception:  # noqa
        pass
    # ... and the same conversions in an interpreter that strips asserts (-O)
    from .core import run_optimized
    opt = run_optimized('harness.notation', 'c15_pass', ['O'])[0]
    return first + c15_pass('o') + opt


def _fresh(t: str) -> str:
    """An equal text that is a different object (as texts read from a file, a
    socket or json.loads are): a decoder must not rely on string identity."""
    return (t + '_')[:-1]


def c15_pass(prefix: str) -> List[Dict[str, Any]]:
    Bid, Card, Contract, Hands, Pair, Player, Suit, Vul = _imp()
    from bridge_env.network_bridge.client import Client
    from bridge_env.network_bridge.server import Server
    R = Rec(prefix)
    for s in range(4):
        for rank in range(2, 15):
            R.add('card.props', {'rank': rank, 'suit': s},
                  lambda: (lambda c: {'int': int(c), 'str': str(c),
                                      'rs': Client.card_str(c)})(Card(rank, Suit(s + 1))))
    for a in range(52):
        R.add('card.from_int', {'a': a},
              lambda: (lambda c: {'rank': c.rank, 'suit': c.suit.value - 1})(Card.int_to_card(a)))
    texts = [str(Card.int_to_card(a)) for a in range(52)]
    for t in sorted(set(texts)):
        R.add('card.from_str', {'text': t}, lambda: {'out': int(Card.str_to_card(_fresh(t)))})
    for rank in range(2, 15):
        R.add('card.rank_str', {'rank': rank},
              lambda: (lambda s: {'out': s, 'back': Card.rank_str_to_int(s)})(Card.rank_int_to_str(rank)))
    cs = [Card.int_to_card(a) for a in range(52)]
    for a in range(52):
        for b in range(52):
            # b as an independently constructed object
            R.add('card.cmp', {'a': a, 'b': b},
                  lambda: (lambda x, y: {'lt': x < y, 'le': x <= y, 'gt': x > y,
                                         'ge': x >= y, 'eq': x == y,
                                         'hasheq': hash(x) == hash(y)})(
                      cs[a], Card(b % 13 + 2, Suit(b // 13 + 1))))
    for a in range(38):
        R.add('bid.props', {'a': a},
              lambda: (lambda b: {'idx': b.idx, 'str': str(b), 'name': b.name,
                                  'level': b.level or 0,
                                  'suit': 5 if b.suit is None else b.suit.value - 1})(Bid(a + 1)))
        R.add('bid.from_int', {'a': a}, lambda: {'out': Bid.int_to_bid(a).idx})
        # the index as numpy hands it over (np.argmax / np.flatnonzero on the vector of
        # available calls): a refusal is accepted, another call is not
        try:
            import numpy as np
            for conv in (np.int64, np.intp, np.int32):
                n0 = len(R.evs)
                R.add('bid.from_int', {'a': a}, lambda: {'out': Bid.int_to_bid(conv(a)).idx})
                if R.evs[-1]['raised'] and 'TypeError' in R.evs[-1].get('msg', '') and len(R.evs) == n0 + 1:
                    R.evs.pop()
        except ImportError:
            pass
    for level in range(1, 8):
        for s in range(5):
            R.add('bid.from_level_suit', {'level': level, 'suit': s},
                  lambda: {'out': Bid.level_suit_to_bid(level, Suit(s + 1)).idx})
    for t in sorted({str(Bid(a + 1)) for a in range(38)}):
        R.add('bid.from_str', {'text': t}, lambda: {'out': Bid.str_to_bid(_fresh(t)).idx})
    # things that are nobody's notation: refused, or else a notation all the same
    for t in ['C12', 'S14', 'C1_1', 'H 7', 'S+3', 'D10', 'C1', 'CX', 'cq', 'Cq', 'C', 'CQQ', 'QC', 'H11', 'D02']:
        R.add('card.from_str', {'text': t, 'probe': True}, lambda: {'out': int(Card.str_to_card(_fresh(t)))})
    for (level, s_) in [(8, 0), (8, 1), (8, 2), (8, 3), (8, 4), (0, 3), (0, 4), (9, 4), (-1, 0)]:
        R.add('bid.from_level_suit', {'level': level, 'suit': s_, 'probe': True},
              lambda: {'out': Bid.level_suit_to_bid(level, Suit(s_ + 1)).idx})
    for a in (-1, 38, 39, 100, -38):
        R.add('bid.from_int', {'a': a, 'probe': True}, lambda: {'out': Bid.int_to_bid(a).idx})
    for a in (-1, 52, 53, 100):
        R.add('card.from_int', {'a': a, 'probe': True},
              lambda: (lambda c: {'rank': c.rank, 'suit': c.suit.value - 1})(Card.int_to_card(a)))
    for t in ['8C', '0NT', '1N', 'pass', '1c', 'x', '1', 'NT']:
        R.add('bid.from_str', {'text': t, 'probe': True}, lambda: {'out': Bid.str_to_bid(_fresh(t)).idx})
    for a in range(4):
        def props(a=a):
            p = Player(a + 1)
            return {'str': str(p), 'formal': p.formal_name, 'left': seatv(p.left),
                    'next': seatv(p.next_player), 'right': seatv(p.right),
                    'partner': seatv(p.partner), 'pair': p.pair.value - 1,
                    'opp': p.opponent_pair.value - 1,
                    'from_formal': seatv(Player.convert_formal_name(p.formal_name)),
                    'from_name': seatv(Player[str(p)])}
        R.add('seat.props', {'a': a}, props)
        for b in range(4):
            R.add('seat.rel', {'a': a, 'b': b},
                  lambda: {'is_partner': bool(Player(a + 1).is_partner(Player(b + 1)))})
        for v in range(4):
            R.add('seat.is_vul', {'a': a, 'vul': v},
                  lambda: {'out': bool(Player(a + 1).is_vul(Vul(v + 1))),
                           'pair_out': bool(Player(a + 1).pair.is_vul(Vul(v + 1)))})
    for a in range(2):
        R.add('pair.props', {'a': a},
              lambda: {'str': str(Pair(a + 1)), 'opp': Pair(a + 1).opponent_pair.value - 1})
    for a in range(4):
        R.add('vul.props', {'a': a},
              lambda: {'str': str(Vul(a + 1)), 'pbn': Vul(a + 1).pbn_format(),
                       'proto': Server.convert_vul(Vul(a + 1))})
    for t in ['None', 'Love', '-', 'NS', 'EW', 'Both', 'All']:
        R.add('vul.from_str', {'text': t}, lambda: {'out': Vul.str_to_vul(_fresh(t)).value - 1})
    for a in range(5):
        R.add('suit.props', {'a': a},
              lambda: {'str': str(Suit(a + 1)), 'minor': bool(Suit(a + 1).is_minor()),
                       'major': bool(Suit(a + 1).is_major())})

    def cprops(c):
        try:
            iv = 'true' if c.is_vul() else 'false'
        except Exception:  # noqa
            iv = 'raises'
        return {'str': str(c), 'level': c.level or 0,
                'trump': 5 if c.trump is None else c.trump.value - 1,
                'passed_out': bool(c.is_passed_out()),
                'necessary': c.necessary_tricks() or 0, 'is_vul': iv}

    texts = []
    for b in list(range(35)) + [NOCALL, 35]:
        po = b >= 35
        fb = None if b == NOCALL else Bid.int_to_bid(b)
        for (x, xx) in ([(False, False)] if po else
                        [(False, False), (True, False), (True, True), (False, True)]):
            for v in range(4):
                for d in ([NOSEAT] if po else range(4)):
                    R.add('contract.props', {'bid': b, 'x': x, 'xx': xx, 'vul': v, 'decl': d},
                          lambda: cprops(Contract(fb, x=x, xx=xx, vul=Vul(v + 1),
                                                  declarer=None if d == NOSEAT else Player(d + 1))))
            if not (xx and not x) and b != 35:
                texts.append((str(Contract(fb, x=x, xx=xx)), po))
    # contracts DERIVED from another contract that has already been used (printed,
    # asked for its vulnerability): dataclasses.replace, or rebuilt from its fields
    import dataclasses

    def derived(base, how, **kw):
        str(base); base.is_vul() if base.declarer is not None else None     # noqa: E702
        if how == 'replace':
            return dataclasses.replace(base, **kw)
        f = {fl.name: getattr(base, fl.name) for fl in dataclasses.fields(base) if fl.init}
        f.update(kw)
        return Contract(**f)
    for b in range(35):
        for k_, (x, xx) in enumerate([(False, False), (True, False), (True, True)]):
            v, d = (b + k_) % 4, (b + 2 * k_) % 4
            base = Contract.str_to_contract(_fresh(str(Contract(Bid.int_to_bid((b + 7) % 35), x=not x, xx=False))),
                                            vul=Vul((v + 1) % 4 + 1), declarer=Player((d + 1) % 4 + 1)) \
                if b % 2 else Contract(Bid.int_to_bid((b + 7) % 35), x=not x, xx=False,
                                       vul=Vul((v + 1) % 4 + 1), declarer=Player((d + 1) % 4 + 1))
            how = 'replace' if (b + k_) % 3 else 'fields'
            R.add('contract.props', {'bid': b, 'x': x, 'xx': xx, 'vul': v, 'decl': d},
                  lambda: cprops(derived(base, how, final_bid=Bid.int_to_bid(b), x=x, xx=xx,
                                         vul=Vul(v + 1), declarer=Player(d + 1))))

    def cfrom(t, v, d):
        c = Contract.str_to_contract(_fresh(t), vul=Vul(v + 1),
                                     declarer=None if d == NOSEAT else Player(d + 1))
        fb = c.final_bid
        return {'out_bid': NOCALL if fb is None else fb.idx, 'out_x': bool(c.x),
                'out_xx': bool(c.xx), 'out_vul': c.vul.value - 1,
                'out_decl': seatv(c.declarer)}
    # two passes in different nestings (a cache keyed on part of the arguments
    # is exposed by either)
    for (t, po) in texts:
        for v in range(4):
            # (no declarer is the documented default of the parser, for any contract)
            for d in ([NOSEAT] if po else list(range(4)) + [NOSEAT]):
                R.add('contract.from_str', {'text': t, 'vul': v, 'decl': d},
                      lambda: cfrom(t, v, d))
    for d in range(4):
        for v in (3, 2, 1, 0):
            for (t, po) in reversed(texts):
                if not po:
                    R.add('contract.from_str', {'text': t, 'vul': v, 'decl': d},
                          lambda: cfrom(t, v, d))
    return R.evs


def run_c15(pid: str, tier: str) -> int:
    chk = Check(pid, tier)
    chk.rule = ('a case is one converter call on one value of its complete '
                'finite domain; distinct cases are distinct (converter, '
                'arguments); all are non-trivial')
    chk.assumptions = ['TLC, SANY, Json community module; tables of Notation.tla']
    d = tlc.fresh('mcnot')
    d.mkdir(parents=True)
    (d / 'MCNot.tla').write_text(
        '---- MODULE MCNot ----\nEXTENDS Notation\nVARIABLE z\n'
        'ASSUME NotationsInjective\nSpec == z = 0 /\\ [][UNCHANGED z]_z\n====\n')
    res = tlc.run_tlc('MCNot', tlc.cfg_text(specification='Spec'), workers=1,
                      spec_dir=d, timeout=1200)
    if 'Assumption' in res.out and 'is false' in res.out:
        res.violated = 'NotationsInjective'
        chk.model_violation(res, 'injectivity of the notations')
    else:
        tlc.require_clean(res, 'NotationsInjective')
    chk.add_tlc(res, 'ASSUME NotationsInjective (complete domains)')
    # two callers at the same time, first use of every converter in this process
    from . import race

    def make_calls():
        Bid, Card, Contract, Hands, Pair, Player, Suit, Vul = _imp()

        def mk(tag, shift):
            def call():
                R = Rec(tag)
                a = (7 + shift) % 52
                R.add('card.from_int', {'a': a},
                      lambda: (lambda c: {'rank': c.rank, 'suit': c.suit.value - 1})(Card.int_to_card(a)))
                t = str(Card.int_to_card((20 + shift) % 52))
                R.add('card.from_str', {'text': t}, lambda: {'out': int(Card.str_to_card(_fresh(t)))})
                b = (3 + 11 * shift) % 38
                R.add('bid.from_int', {'a': b}, lambda: {'out': Bid.int_to_bid(b).idx})
                bt = str(Bid.int_to_bid((17 + shift) % 38))
                R.add('bid.from_str', {'text': bt}, lambda: {'out': Bid.str_to_bid(_fresh(bt)).idx})
                for s in range(4):
                    p = Player((s + shift) % 4 + 1)
                    R.add('seat.props', {'a': p.value - 1},
                          lambda: {'str': str(p), 'formal': p.formal_name, 'left': seatv(p.left),
                                   'next': seatv(p.next_player), 'right': seatv(p.right),
                                   'partner': seatv(p.partner), 'pair': p.pair.value - 1,
                                   'opp': p.opponent_pair.value - 1,
                                   'from_formal': seatv(Player.convert_formal_name(p.formal_name)),
                                   'from_name': seatv(Player[str(p)])})
                for t2 in (['Love', 'All', 'NS'] if shift else ['-', 'Both', 'EW', 'None']):
                    R.add('vul.from_str', {'text': t2}, lambda: {'out': Vul.str_to_vul(_fresh(t2)).value - 1})
                ct = ['3NTX', '1C', '7SXX'][shift % 3]
                R.add('contract.from_str', {'text': ct, 'vul': shift % 4, 'decl': (1 + shift) % 4},
                      lambda: (lambda c: {'out_bid': c.final_bid.idx, 'out_x': bool(c.x), 'out_xx': bool(c.xx),
                                          'out_vul': c.vul.value - 1, 'out_decl': seatv(c.declarer)})(
                          Contract.str_to_contract(_fresh(ct), vul=Vul(shift % 4 + 1), declarer=Player((1 + shift) % 4 + 1))))
                return R.evs
            return call
        return mk('A', 0), mk('B', 1)
    race_events = race.run_race(chk, 'converters', make_calls, 250)
    events = race_events + c15_events()
    for e in events:
        chk.count(tuple((k, str(v)) for k, v in e.items()
                        if k in ('fn', 'a', 'b', 'rank', 'suit', 'text', 'level',
                                 'bid', 'x', 'xx', 'vul', 'decl')))
    chk.exhaustive = True
    for k in (0, 200, len(events) // 2, -1):
        chk.sample(events[k])
    chk.extra['events'] = len(events)
    rejects = validate_traces(chk, 'NotationTrace', events,
                              'real converters vs Notation.tla', shards=8)
    report_rejects(chk, rejects, 'notation',
                   key_of=lambda x: f'notation:{x.clause}:' + ','.join(
                       f'{k}={x.event[k]}' for k in ('a', 'b', 'rank', 'suit', 'text',
                                                     'bid', 'x', 'xx', 'vul', 'decl')
                       if k in x.event))
    return chk.finish()


# --------------------------------------------------------------------------
# C14
# --------------------------------------------------------------------------
def project_hands(h) -> List[List[int]]:
    Player = _imp()[5]
    return [cards_sorted(h[p]) for p in Player]


def void_deal(r) -> List[List[int]]:
    """A deal in which one hand is void in a chosen suit position (and so
    another hand tends to be long in it)."""
    suit = r.randrange(4)
    victim = r.randrange(4)
    pack = [c for c in range(52) if c // 13 != suit]
    r.shuffle(pack)
    hands: List[List[int]] = [[] for _ in range(4)]
    hands[victim] = pack[:13]
    rest = pack[13:] + [c for c in range(52) if c // 13 == suit]
    r.shuffle(rest)
    k = 0
    for s in range(4):
        if s != victim:
            hands[s] = rest[13 * k:13 * (k + 1)]
            k += 1
    return [sorted(h) for h in hands]


def suit_deal(r) -> List[List[int]]:
    """Each hand holds one complete suit."""
    perm = list(range(4))
    r.shuffle(perm)
    return [list(range(13 * perm[s], 13 * perm[s] + 13)) for s in range(4)]


def c14_job(job) -> List[Dict[str, Any]]:
    import numpy as np
    Bid, Card, Contract, Hands, Pair, Player, Suit, Vul = _imp()
    from bridge_env.data_handler.json_handler.writer import convert_deal
    from bridge_env.data_handler.json_handler.parser import hands_parser
    tid, deals, sd = job
    R = Rec(f'{tid}.')
    r = rng('c14', sd, tid)
    for dl in deals:
        first = r.randrange(4)
        hb = make_hands(dl)        # ONE object rendered from several first seats
        for f in ([first, (first + 1) % 4, first] if len(deals) > 3 else
                  [0, 1, 2, 3, 1, 0]):
            text_box: Dict[str, str] = {}

            def enc():
                text_box['t'] = hb.to_pbn(Player(f + 1))
                return {'out': text_box['t']}
            R.add('deal.to_pbn', {'deal': dl, 'first': f}, enc)
            t = text_box.get('t')
            if t is None:
                continue
            dec_box: Dict[str, Any] = {}

            def dec():
                dec_box['h'] = Hands.convert_pbn(t)
                return {'out': project_hands(dec_box['h'])}
            R.add('deal.from_pbn', {'text': t, 'first': f}, dec)
            h2 = dec_box.get('h')
            if h2 is not None and r.random() < 0.5:
                # mutate the decoded object in place, then decode again: the
                # second decode must be independent of the first object
                before = project_hands(h2)
                s = r.randrange(4)
                removed = r.sample(before[s], min(len(before[s]), r.randrange(1, 4)))
                added = []
                if not before[s]:
                    added = [c for c in range(52) if all(c not in x for x in before)][:2]

                def mut():
                    for c in removed:
                        h2[Player(s + 1)].remove(card(c))
                    for c in added:
                        h2[Player(s + 1)].add(card(c))
                    return {'after': project_hands(h2)}
                R.add('deal.mutate', {'before': before, 'seat': s, 'removed': removed,
                                      'added': added}, mut)
                R.add('deal.from_pbn', {'text': t, 'first': f},
                      lambda: {'out': project_hands(Hands.convert_pbn(t))})
        hb = make_hands(dl)
        box: Dict[str, Any] = {}

        def tb():
            b = hb.to_binary()
            box['b'] = b
            ok = all(isinstance(b[p], tuple) and len(b[p]) == 52 and
                     all(type(x) is int for x in b[p]) for p in Player)
            return {'out': [list(map(int, b[p])) for p in Player], 'type_ok': ok}
        R.add('deal.to_binary', {'deal': dl, 'kind': 'tuple'}, tb)
        if 'b' in box:
            R.add('deal.from_binary', {'vecs': [list(box['b'][p]) for p in Player], 'kind': 'tuple'},
                  lambda: {'out': project_hands(Hands.convert_binary(box['b']))})
        for dt in (None, np.int64, np.float32, np.uint8):
            nb: Dict[str, Any] = {}

            def tnb():
                b = hb.to_np_binary() if dt is None else hb.to_np_binary(dtype=dt)
                nb['b'] = b
                want = np.int32 if dt is None else dt
                ok = all(isinstance(b[p], np.ndarray) and b[p].shape == (52,) and
                         b[p].dtype == want for p in Player)
                return {'out': [[int(x) for x in b[p]] for p in Player], 'type_ok': ok}
            R.add('deal.to_binary', {'deal': dl, 'kind': f'np:{getattr(dt, "__name__", "default")}'}, tnb)
            if 'b' in nb:
                R.add('deal.from_binary',
                      {'vecs': [[int(x) for x in nb['b'][p]] for p in Player],
                       'kind': f'np:{getattr(dt, "__name__", "default")}'},
                      lambda: {'out': project_hands(Hands.convert_np_binary(nb['b']))})
            if len(deals) > 3 and dt is None:
                break
        jb: Dict[str, Any] = {}

        def tj():
            j = convert_deal(hb)
            jb['j'] = j
            return {'out': [list(j[k]) for k in ('N', 'E', 'S', 'W')]}
        R.add('deal.to_json', {'deal': dl}, tj)
        if 'j' in jb:
            lists = [list(jb['j'][k]) for k in ('N', 'E', 'S', 'W')]
            R.add('deal.from_json', {'lists': lists},
                  lambda: {'out': project_hands(hands_parser(jb['j']))})
            # decoders must not depend on the order of the list
            sh = {k: r.sample(v, len(v)) for k, v in jb['j'].items()}
            R.add('deal.from_json', {'lists': [sh[k] for k in ('N', 'E', 'S', 'W')]},
                  lambda: {'out': project_hands(hands_parser(sh))})
            # ... nor on the order of the members of the JSON object (a file
            # re-saved with sorted keys, a database column)
            ko = r.sample(['N', 'E', 'S', 'W'], 4)
            reord = {k: list(jb['j'][k]) for k in ko}
            R.add('deal.from_json', {'lists': lists, 'key_order': ''.join(ko)},
                  lambda: {'out': project_hands(hands_parser(reord))})
        # what a decoder returns is a deal like any other: it goes through every
        # encoder again (decode -> encode chains)
        if 'b' in box and r.random() < 0.2:
            for nm, dec in (('tuple', lambda: Hands.convert_binary(box['b'])),
                            ('np', lambda: Hands.convert_np_binary(hb.to_np_binary())),
                            ('json', lambda: hands_parser(convert_deal(hb))),
                            ('pbn', lambda: Hands.convert_pbn(hb.to_pbn()) if all(len(x) == 13 for x in dl) else None)):
                try:
                    h2 = dec()
                except Exception:  # noqa
                    h2 = None
                if h2 is None:
                    continue
                R.add('deal.to_binary', {'deal': dl, 'kind': f'tuple-after-{nm}'},
                      lambda: (lambda b: {'out': [list(map(int, b[p])) for p in Player], 'type_ok': True})(h2.to_binary()))
                R.add('deal.to_json', {'deal': dl, 'after': nm},
                      lambda: (lambda j: {'out': [list(j[k]) for k in ('N', 'E', 'S', 'W')]})(convert_deal(h2)))
                R.add('deal.to_binary', {'deal': dl, 'kind': f'np:default-after-{nm}'},
                      lambda: (lambda b: {'out': [[int(x) for x in b[p]] for p in Player],
                                          'type_ok': True})(h2.to_np_binary()))
                if all(len(x) == 13 for x in dl):
                    f2 = r.randrange(4)
                    R.add('deal.to_pbn', {'deal': dl, 'first': f2},
                          lambda: {'out': h2.to_pbn(Player(f2 + 1))})
        # a hand attribute re-assigned on the object (a hand hidden / swapped),
        # then encoded: every encoder must show the new hands
        if r.random() < 0.3 and any(dl):
            h3 = make_hands(dl)
            s1, s2 = r.sample(range(4), 2)
            names = ['north', 'east', 'south', 'west']
            new_dl = [list(x) for x in dl]
            new_dl[s1], new_dl[s2] = new_dl[s2], (new_dl[s1] if r.random() < 0.5 else [])
            try:
                setattr(h3, names[s1], {card(c) for c in new_dl[s1]})
                setattr(h3, names[s2], {card(c) for c in new_dl[s2]})
            except Exception:  # noqa
                new_dl = None
            if new_dl is not None:
                R.add('deal.to_binary', {'deal': new_dl, 'kind': 'tuple-after-reassign'},
                      lambda: (lambda b: {'out': [list(map(int, b[p])) for p in Player], 'type_ok': True})(h3.to_binary()))
                R.add('deal.to_json', {'deal': new_dl},
                      lambda: (lambda j: {'out': [list(j[k]) for k in ('N', 'E', 'S', 'W')]})(convert_deal(h3)))
                if all(len(x) in (0, 13) for x in new_dl):
                    f3 = r.randrange(4)
                    R.add('deal.to_pbn', {'deal': new_dl, 'first': f3},
                          lambda: {'out': h3.to_pbn(Player(f3 + 1))})
        # equality
        other = make_hands(dl)
        R.add('deal.eq', {'a': dl, 'b': dl}, lambda: {'out': bool(hb == other)})
    return R.evs


def c14_random_events(n: int, sd: int) -> List[Dict[str, Any]]:
    Hands = _imp()[3]
    R = Rec('g')
    st = _random.getstate()
    try:
        for k in range(n):
            _random.seed(sd * 1000003 + k)
            R.add('deal.random', {'seed': k},
                  lambda: {'out': project_hands(Hands.generate_random_hands())})
        # two dealers at work at the same time (two tables, two threads): a
        # second deal is made in the middle of the first one, at each of the
        # points where the dealer builds a hand; the first deal must not notice
        import builtins
        import bridge_env.hands as hm
        for k in range(n):
            for at in (1, 2, 3, 4):
                state = {'calls': 0, 'busy': False}

                def hooked(*a):
                    state['calls'] += 1
                    if state['calls'] == at and not state['busy']:
                        state['busy'] = True
                        Hands.generate_random_hands()
                    return builtins.set(*a)
                _random.seed(sd * 7919 + k)
                hm.set = hooked
                try:
                    R.add('deal.random', {'seed': k, 'interleaved_at': at},
                          lambda: {'out': project_hands(Hands.generate_random_hands())})
                finally:
                    try:
                        del hm.set
                    except AttributeError:
                        pass
            if k >= 20:
                break
    finally:
        _random.setstate(st)
    return R.evs


def partial_deals(r, n: int) -> List[List[List[int]]]:
    out = []
    for _ in range(n):
        dl = random_deal(r)
        k = r.randrange(1, 5)
        for s in r.sample(range(4), k):
            dl[s] = []
        out.append(dl)
    return out


def run_c14(pid: str, tier: str) -> int:
    chk = Check(pid, tier)
    quick = tier == 'quick'
    r = rng('c14')
    chk.rule = ('a case is one encoder / decoder call on one deal; distinct '
                'cases are distinct (function, deal or text, first seat); '
                'non-trivial = the deal has at least one non-empty hand')
    chk.assumptions = ['the space of 5.4e28 deals is SAMPLED (uniform, voids '
                       'forced in each suit position, one-suit hands, partial '
                       'deals); Notation.tla supplies the canonical encodings '
                       'and TLC their injectivity on a reduced pack',
                       'decoders are given the text the real encoder produced, '
                       'which the same run validates against the specification']
    d = tlc.fresh('mcnot')
    d.mkdir(parents=True)
    # 10 cards in the thorough tier: 1,024 subsets, 2.5 minutes (12 cards timed out after 40)
    pack = '{0, 12, 13, 25, 26, 38, 39, 51}' if quick else '{0, 5, 12, 13, 25, 26, 30, 38, 39, 51}'
    (d / 'MCNotH.tla').write_text(
        '---- MODULE MCNotH ----\nEXTENDS Notation\nVARIABLE z\n'
        f'ASSUME HandsInjective({pack})\nSpec == z = 0 /\\ [][UNCHANGED z]_z\n====\n')
    res = tlc.run_tlc('MCNotH', tlc.cfg_text(specification='Spec'), workers=1,
                      spec_dir=d, timeout=2400, long_run=True)
    if 'Assumption' in res.out and 'is false' in res.out:
        res.violated = 'HandsInjective'
        chk.model_violation(res, 'injectivity of the hand texts')
    else:
        tlc.require_clean(res, 'HandsInjective')
    chk.add_tlc(res, f'ASSUME HandsInjective({pack}): PBN hand and protocol hand '
                     f'texts injective on all subsets')
    n = 300 if quick else 12000
    deals = [random_deal(r) for _ in range(n)] + \
            [void_deal(r) for _ in range(n // 3)] + \
            [shaped_deal(r) for _ in range(n // 6)] + \
            [suit_deal(r) for _ in range(8 if quick else 24)] + \
            partial_deals(r, n // 6) + [[[], [], [], []]]
    jobs = [(f'd{a}', deals[a:a + 25], seed()) for a in range(0, len(deals), 25)]
    # a few deals with all four first seats and all numpy dtypes
    jobs += [(f'f{a}', [dl], seed()) for a, dl in enumerate(deals[:40:2] + deals[n:n + 12])]
    events: List[Dict[str, Any]] = []
    for evs in pmap(c14_job, jobs):
        events.extend(evs)
    events += c14_random_events(100 if quick else 3000, seed())
    from . import race

    def make_calls():
        Hands = _imp()[3]

        def mk(tag, sd_):
            def call():
                R = Rec(tag)
                st = _random.getstate()
                _random.seed(sd_)
                R.add('deal.random', {'seed': sd_}, lambda: {'out': project_hands(Hands.generate_random_hands())})
                _random.setstate(st)
                dl = random_deal(rng('race14', sd_))
                hb = make_hands(dl)
                f = sd_ % 4
                box = {}

                def enc():
                    box['t'] = hb.to_pbn(_imp()[5](f + 1))
                    return {'out': box['t']}
                R.add('deal.to_pbn', {'deal': dl, 'first': f}, enc)
                if 't' in box:
                    R.add('deal.from_pbn', {'text': box['t'], 'first': f},
                          lambda: {'out': project_hands(Hands.convert_pbn(box['t']))})
                return R.evs
            return call
        return mk('A', 11), mk('B', 22)
    events += race.run_race(chk, 'dealer-and-codecs', make_calls, 250)
    for e in events:
        key = (e['fn'], e.get('first'), e.get('kind'), str(e.get('deal', e.get('text', e.get('vecs', e.get('lists', e.get('seed', ''))))))[:400])
        nontrivial = 'deal' not in e or any(e['deal'])
        chk.evaluations += 1
        if nontrivial:
            chk.distinct.add(hash(key))
    for k in (0, 1, len(events) // 2, -1):
        chk.sample(events[k])
    chk.extra['events'] = len(events)
    chk.extra['deals'] = len(deals)
    rejects = validate_traces(chk, 'NotationTrace', events,
                              'real deal encoders/decoders vs Notation.tla')
    report_rejects(chk, rejects, 'deal', key_of=lambda x: f'deal:{x.clause}')
    return chk.finish()


# --------------------------------------------------------------------------
# C19, message half
# --------------------------------------------------------------------------
SEATS = ['North', 'East', 'South', 'West']
NAME_ALPHABET = ('abcdefghijklmnopqrstuvwxyzABCDEFGHIJKLMNOPQRSTUVWXYZ0123456789'
                 " .,-_/()'+#:!?*&%$@=<>[]{}|~^;")


def case_variants(s: str, r) -> List[tuple]:
    mixed = ''.join(ch.upper() if r.random() < 0.5 else ch.lower() for ch in s)
    return [('asis', s), ('lower', s.lower()), ('upper', s.upper()), ('mixed', mixed)]


ALERTS = ['', ' Alert.', ' alert. ', ' ALERT.', '  aLeRt.  ', ' Alert.\t']


def c19_message_events(tier: str, r) -> List[Dict[str, Any]]:
    Bid, Card, Contract, Hands, Pair, Player, Suit, Vul = _imp()
    from bridge_env.network_bridge.client import Client
    from bridge_env.network_bridge.server import PlayerThread, Server
    from bridge_env.network_bridge.socket_interface import MessageInterface
    quick = tier == 'quick'
    R = Rec('m')
    # calls: builder and parser, all 38 x 4 x case variants x alert suffixes
    for s in range(4):
        for c in range(38):
            box: Dict[str, str] = {}

            def build():
                box['t'] = Client.create_bid_message(Bid.int_to_bid(c), SEATS[s])
                return {'out': box['t']}
            R.add('msg.bid', {'seat': s, 'call': c}, build)
            base = box.get('t')
            if base is None:
                continue
            for (vn, txt) in case_variants(base, r):
                for al in ALERTS:
                    msg = txt + al

                    def parse():
                        m = msg
                        if 'alert' in m.lower():            # as Server.bidding_phase does
                            m = Server.remove_alert_word(m)
                        return {'out': MessageInterface.parse_bid(m, SEATS[s]).idx}
                    R.add('msg.parse_bid', {'seat': s, 'call': c, 'base': base,
                                            'variant': vn, 'alert': al, 'sent': msg}, parse)
    # alerted calls through the table manager itself: what Server.bidding_phase
    # relays to the other three seats must be understood by their parser
    from bridge_env import Vul as _Vul
    auctions = [[(0, ''), (36, ' Alert.'), (37, ' ALERT.'), (35, ' alert. '), (35, ''), (35, '')],
                [(35, ' alert.'), (4, ' Alert. '), (35, ''), (35, '  aLeRt.'), (35, '')],
                [(7, ' ALERT.'), (36, ''), (35, ' Alert.'), (35, ''), (8, ' alert.'), (35, ''), (35, ''), (35, '')]]
    for ai, auc in enumerate(auctions):
        for dealer in range(4):
            srv = Server('127.0.0.1', 0, pathlib.Path('unused.json'))
            seat = dealer
            sent_msgs = []
            for (c, al) in auc:
                base = Client.create_bid_message(Bid.int_to_bid(c), SEATS[seat])
                txt = [base, base.lower(), base.upper()][(ai + seat) % 3] + al
                srv.received_message_queues[Player(seat + 1)].put(txt)
                sent_msgs.append((seat, c, base, txt))
                seat = (seat + 1) % 4
            ok = True
            try:
                srv.bidding_phase(Player(dealer + 1), _Vul.NONE)
            except Exception:  # noqa
                ok = False
            # every other seat's queue: names of the seats to call and the relays
            for listener in range(4):
                q = srv.sent_message_queues[Player(listener + 1)]
                items = []
                while not q.empty():
                    items.append(q.get_nowait())
                relays = [m for m in items if isinstance(m, str) and
                          any(w in m.lower() for w in (' bids ', ' passes', ' doubles', ' redoubles'))]
                expected = [(st, c, base, txt) for (st, c, base, txt) in sent_msgs if st != listener]
                for k2, (st, c, base, txt) in enumerate(expected):
                    got = relays[k2] if ok and k2 < len(relays) else '<missing>'
                    R.add('msg.parse_bid', {'seat': st, 'call': c, 'base': base, 'variant': 'relayed',
                                            'alert': 'via-server', 'sent': got},
                          lambda: {'out': MessageInterface.parse_bid(got, SEATS[st]).idx})
    # cards: both notations x case variants
    for s in range(4):
        for c in range(52):
            cd = card(c)
            rs_box: Dict[str, str] = {}

            def cs():
                rs_box['t'] = Client.card_str(cd)
                return {'out': rs_box['t']}
            R.add('msg.card', {'card': c}, cs)
            for notation, body in (('rs', rs_box.get('t')), ('sr', str(cd))):
                if body is None:
                    continue
                base = f'{SEATS[s]} plays {body}'
                for (vn, txt) in case_variants(base, r):
                    R.add('msg.parse_card', {'seat': s, 'card': c, 'base': base,
                                             'notation': notation, 'variant': vn, 'sent': txt},
                          lambda: {'out': cnum(MessageInterface.parse_card(txt, Player(s + 1)))})
    # hands of 0..13 cards with voids forced
    hands: List[List[int]] = [[]]
    for n in range(1, 14):
        for _ in range(6 if quick else 150):
            hands.append(sorted(r.sample(range(52), n)))
        for suit in range(4):      # n cards of one suit / void in one suit
            hands.append(sorted(r.sample(range(13 * suit, 13 * suit + 13), n)))
            pool = [c for c in range(52) if c // 13 != suit]
            hands.append(sorted(r.sample(pool, n)))
    for h in hands:
        tb: Dict[str, str] = {}

        def ht():
            tb['t'] = Server.hand_to_str({card(c) for c in h})
            return {'out': tb['t']}
        R.add('msg.hand', {'hand': h}, ht)
        t = tb.get('t')
        if t is None:
            continue
        for sent in (t, t + ' ', t):
            def ph():
                hs, vec = Client.parse_hand(sent)
                out = {'out': cards_sorted(hs), 'vec': [int(x) for x in vec]}
                # the caller owns the result (the client plays cards out of
                # it): emptying it must not influence a later parse
                try:
                    hs.clear()
                except Exception:  # noqa
                    pass
                return out
            R.add('msg.parse_hand', {'base': t, 'sent': sent}, ph)
        owner = r.choice(SEATS + ['Dummy'])
        full = f"{owner}'s cards : {t}"
        R.add('msg.parse_cards', {'base': full, 'owner': owner, 'hand': h},
              lambda: {'out': Client.parse_cards(full, owner)})
    # board headers and the per-seat messages Server.deal really queues
    class _NoBarrier:
        def wait(self, *a, **k):
            return 0

        def set(self):
            pass

        def clear(self):
            pass

        def is_set(self):
            return True
    numbers = list(range(1, 201)) if not quick else list(range(1, 30)) + [99, 100, 101, 200]
    for n in numbers:
        for dealer in range(4):
            for v in range(4):
                if quick and (n + dealer + v) % 3:
                    continue
                dl = random_deal(r)
                srv = Server('127.0.0.1', 0, pathlib.Path('unused.json'))
                for ev in srv.players_event.values():
                    ev.set()                    # pinned tree: flags already up
                got: Dict[str, Any] = {}

                def run_deal():
                    srv.deal(n, Player(dealer + 1), Vul(v + 1), make_hands(dl), _NoBarrier())
                    for p in Player:
                        q = srv.sent_message_queues[p]
                        got[p] = (q.get_nowait(), q.get_nowait(), q.empty())
                    return {}
                R.add('msg.deal_run', {'n': n}, run_deal)
                if R.evs[-1]['raised']:
                    R.evs[-1]['fn'] = 'msg.deal'
                    continue
                R.evs.pop()
                for p in Player:
                    hd, cm, empty = got[p]
                    R.add('msg.deal', {'n': n, 'dealer': dealer, 'vul': v, 'seat': p.value - 1,
                                       'hand': dl[p.value - 1]},
                          lambda: {'header': hd, 'cards': cm, 'queue_empty': empty})
                hd = got[Player.N][0]

                def pb():
                    bn, dd, vv = Client.parse_board(hd)
                    return {'out_n': bn, 'out_dealer': seatv(dd), 'out_vul': vv.value - 1}
                R.add('msg.parse_board', {'base': hd, 'n': n, 'dealer': dealer, 'vul': v}, pb)
    # team names, connection lines
    names = ['teamNS', 'teamEW', 'a', 'N/S', 'E/W : x', 'x. E/W', ' lead ', 'Teams : N/S',
             "O'Neil (2)", '12_k-a', '.e+-=', 'as North using', 'version 18', 'Two as one',
             'Bridge as Art', 'x as South using protocol version 17', ' as ', 'as', 'using protocol',
             'N/S : a E/W : b', 'E/W', '. E/W : ', 'Deep  Finesse', 'a   b', '  two leading', 'trailing  ',
             'tab\there']
    for _ in range(40 if quick else 1500):
        names.append(''.join(r.choice(NAME_ALPHABET) for _ in range(r.randrange(1, 24))))
    for k, ns in enumerate(names):
        ew = names[(k * 7 + 3) % len(names)]
        for sep in ('" E/W', '". E/W'):          # as the server builds it / protocol spelling
            base = f'Teams : N/S : "{ns}" E/W : "{ew}"'
            sent = f'Teams : N/S : "{ns}{sep} : "{ew}"'

            def pt():
                a, b = Client.parse_team_names(sent)
                return {'out_ns': a, 'out_ew': b}
            R.add('msg.parse_teams', {'base': base, 'ns': ns, 'ew': ew, 'sent': sent}, pt)
        for s in range(4):
            ver = r.choice([18, 18, 17, 1, 180])
            base = f'Connecting "{ns}" as {SEATS[s]} using protocol version {ver}'
            def line(seat_text):
                return f'Connecting "{ns}" as {seat_text} using protocol version {ver}'
            for (vn, txt) in [('asis', base), ('lowerseat', line(SEATS[s].lower())),
                              ('upperseat', line(SEATS[s].upper()))]:
                def pc():
                    tm, pl, vv = PlayerThread.parse_connection_info(txt)
                    return {'out_team': tm, 'out_seat': seatv(pl), 'out_version': vv}
                R.add('msg.parse_connect', {'base': base, 'team': ns, 'seat': s,
                                            'version': ver, 'variant': vn, 'sent': txt}, pc)
    # the bundled client's handshake, fed the lines of the protocol for its seat
    from .framing import ScriptedSocket
    for k, team in enumerate(names):
        other = names[(k * 5 + 1) % len(names)]
        for s in (k % 4, (k + 1) % 4):
            ns, ew = (team, other) if s % 2 == 0 else (other, team)
            for style in (0, 1):
                seated = f'{SEATS[s]} {team} seated' if style == 0 else f'{SEATS[s]} ("{team}") seated'

                def hs():
                    cl = Client(player=Player(s + 1), team_name=team, bidding_system=None,
                                playing_system=None, ip_address='127.0.0.1', port=0)
                    lines = (seated + '\r\n' + f'Teams : N/S : "{ns}" E/W : "{ew}"' + '\r\n').encode('utf-8')
                    sock = ScriptedSocket([lines], False)
                    sock.connect = lambda *a: None
                    cl._socket = sock
                    MessageInterface.__init__(cl, connection_socket=sock)
                    cl._connect()
                    sent = bytes(sock.sent).decode('utf-8').split('\r\n')
                    return {'sent': sent[:-1], 'opp': cl.opponent_team_name}
                R.add('msg.handshake', {'team': team, 'other': other, 'seat': s, 'style': style}, hs)
    for s in range(4):
        for dummy in range(4):
            R.add('msg.parse_leader', {'seat': s, 'as_dummy': False, 'base': f'{SEATS[s]} to lead'},
                  lambda: {'out': seatv(Client.parse_leader_message(f'{SEATS[s]} to lead', Player(dummy + 1)))})
        R.add('msg.parse_leader', {'seat': s, 'as_dummy': True, 'base': 'Dummy to lead'},
              lambda: {'out': seatv(Client.parse_leader_message('Dummy to lead', Player(s + 1)))})
    return R.evs


def run(pid: str, tier: str) -> int:
    if pid == 'C15':
        return run_c15(pid, tier)
    if pid == 'C14':
        return run_c14(pid, tier)
    raise MachineryError(f'no notation check for {pid}')
