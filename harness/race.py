"""Two callers of the library at the same time, explored systematically.

Some library functions keep process-wide state that is built on first use
(lookup tables, caches) or state on an object that two callers may share.
For such code a property quantified over "every input" silently also needs
"whoever else is calling at the same moment".  This module runs call A in a
thread under sys.settrace and suspends it before its k-th line inside the
library (for every k), lets call B run to completion meanwhile, then resumes
A.  Every (k) is explored in a forked child, so that the process-wide state
is the pristine state of the parent (first use really is first use).

Both calls return trace events; the events are validated by the same TLC
trace specifications as the sequential ones - the specification decides.
"""
from __future__ import annotations

import json
import os
import sys
import threading
from typing import Any, Callable, Dict, List, Tuple


def _child(make_calls, prefix: str, k: int, wfd: int) -> None:
    """k > 0: suspend call A before its k-th line; k = 0: dry run of call A
    alone that reports the code location of every line it executes."""
    out: Dict[str, Any] = {'k': k, 'reached': False, 'events': [], 'error': None}
    try:
        try:
            call_a, call_b = make_calls()
        except Exception as ex:  # noqa
            # the set-up drives the library too (legal calls only): its failure is
            # a failure of the code under test, not of the exploration
            out['events'] = [{'ev': 'race-error', 'who': 'setup',
                              'msg': f'{type(ex).__name__}: {ex}'[:120]}]
            os.write(wfd, json.dumps(out).encode())
            os._exit(0)
        paused, resume = threading.Event(), threading.Event()
        count = [0]
        res_a: List[Any] = []
        locs: List[int] = []
        loc_ids: Dict[Any, int] = {}

        def tracer(frame, event, arg):
            if not frame.f_code.co_filename.startswith(prefix):
                return None

            def local(fr, ev, ar):
                if ev == 'line':
                    count[0] += 1
                    if k == 0:
                        if len(locs) < 3000000:
                            locs.append(loc_ids.setdefault((fr.f_code.co_filename, fr.f_lineno),
                                                           len(loc_ids)))
                    elif count[0] == k:
                        paused.set()
                        resume.wait(180.0)
                return local
            return local

        def run_a():
            sys.settrace(tracer)
            try:
                res_a.extend(call_a())
            except BaseException as ex:  # noqa
                res_a.append({'ev': 'race-error', 'who': 'A', 'msg': f'{type(ex).__name__}: {ex}'[:120]})
            finally:
                sys.settrace(None)
                paused.set()
        t = threading.Thread(target=run_a, daemon=True)
        t.start()
        paused.wait(180.0)
        reached = count[0] >= k and t.is_alive()
        out['reached'] = reached
        evs_b: List[Any] = []
        tb = None
        if reached:
            # call B runs in a thread of its own: where A was suspended inside a
            # region that B must wait for (a lock), B cannot finish before A goes
            # on - that is an ordinary interleaving, not a failure: A is resumed
            def run_b():
                try:
                    evs_b.extend(list(call_b()))
                except BaseException as ex:  # noqa
                    evs_b.append({'ev': 'race-error', 'who': 'B', 'msg': f'{type(ex).__name__}: {ex}'[:120]})
            tb = threading.Thread(target=run_b, daemon=True)
            tb.start()
            tb.join(float(os.environ.get('VERIF_RACE_B_WAIT', '4.0')))
            out['b_waited_for_a'] = tb.is_alive()
        resume.set()
        t.join(180.0)
        if tb is not None:
            tb.join(180.0)
            if tb.is_alive():
                evs_b = [{'ev': 'race-error', 'who': 'B', 'msg': 'call B did not finish'}]
        out['events'] = (list(res_a) + evs_b) if k else [e for e in res_a if isinstance(e, dict)
                                                         and e.get('ev') == 'race-error']
        out['hung'] = t.is_alive()
        out['locs'] = locs
    except BaseException as ex:  # noqa
        out['error'] = f'{type(ex).__name__}: {ex}'[:200]
    try:
        os.write(wfd, json.dumps(out).encode())
    finally:
        os._exit(0)


def explore(make_calls: Callable[[], Tuple[Callable[[], List[dict]], Callable[[], List[dict]]]],
            repo_prefix: str, max_points: int = 120) -> Tuple[List[dict], int]:
    """Returns (events, number of preemption points explored).

    A dry run of call A (in a child, like everything else) gives the code
    location of each of its line events.  Call A is then suspended before
    every one of its first 40 lines and, for every distinct location, before
    the first, second, middle and last time it is reached - race windows
    belong to code locations, and a loop of a thousand rounds has four
    interesting moments, not a thousand."""
    events: List[dict] = []
    dry = _run_child(make_calls, repo_prefix, 0)
    if any(e.get('ev') == 'race-error' for e in dry.get('events', [])):
        return [dict(e, tid='race0.setup') for e in dry['events']], 0
    if dry.get('error'):
        return [{'ev': 'race-error', 'who': 'harness', 'msg': 'dry run: ' + dry['error']}], 0
    locs = dry.get('locs', [])
    occ: Dict[int, List[int]] = {}
    for idx, l in enumerate(locs):
        occ.setdefault(l, []).append(idx + 1)
    first = sorted({o[0] for o in occ.values()})
    more = sorted({x for o in occ.values() for x in (o[min(1, len(o) - 1)], o[len(o) // 2], o[-1])})
    points: List[int] = []
    for x in list(range(1, min(40, len(locs)) + 1)) + first + more:
        if x not in points:
            points.append(x)
    points = sorted(points[:max_points])
    for k in points:
        out = _run_child(make_calls, repo_prefix, k)
        if out.get('error'):
            events.append({'ev': 'race-error', 'who': 'harness', 'msg': out['error']})
            break
        for e in out.get('events', []):
            e = dict(e)
            e['tid'] = f'race{k}.{e.get("tid", len(events))}'
            e['race_point'] = k
            events.append(e)
        if out.get('hung'):
            events.append({'ev': 'race-error', 'who': 'A', 'msg': 'call A did not finish', 'tid': f'race{k}.hung'})
    return events, len(points)


def _run_child(make_calls, repo_prefix: str, k: int) -> Dict[str, Any]:
    if True:
        rfd, wfd = os.pipe()
        pid = os.fork()
        if pid == 0:
            os.close(rfd)
            _child(make_calls, repo_prefix, k, wfd)
        os.close(wfd)
        data = b''
        while True:
            chunk = os.read(rfd, 1 << 16)
            if not chunk:
                break
            data += chunk
        os.close(rfd)
        os.waitpid(pid, 0)
        try:
            out = json.loads(data.decode() or '{}')
        except ValueError:
            out = {'error': 'child returned no result'}
        return out


def run_race(chk, name: str, make_calls, max_points: int = 150) -> List[dict]:
    """Explores the interleavings, records coverage in chk.extra, turns
    failures of the calls themselves into violations; returns the events to
    be validated by the caller's trace specification."""
    from .core import REPO
    from .tlc import MachineryError
    evs, points = explore(make_calls, str(REPO), max_points)
    good = []
    for e in evs:
        if e.get('ev') == 'race-error':
            if e.get('who') == 'harness':
                raise MachineryError(f'race exploration {name}: {e["msg"]}')
            chk.violation(f'race:{name}:{e["who"]}:{e["msg"][:60]}',
                          f'two callers at the same time ({name}): call {e["who"]} failed: {e["msg"]}',
                          {'kind': 'race', 'name': name, 'event': e})
        else:
            good.append(e)
    chk.extra.setdefault('two_callers_at_once', {})[name] = {
        'preemption_points': points, 'events': len(good)}
    return good
