"""C19: CR LF framing (Framing.tla) and protocol messages (Notation.tla)."""
from __future__ import annotations

from typing import Any, Dict, List

from . import tlc
from .core import (Check, MachineryError, design_check, pmap, report_rejects,
                   rng, seed, validate_traces)
from .notation import c19_message_events


class _Spin(BaseException):
    """The reader keeps calling recv() after end-of-stream."""


class _WouldBlock(BaseException):
    """No bytes in transit and the peer is still connected."""


class ScriptedSocket:
    """recv(n) returns at most n bytes and never crosses a chunk boundary
    (that is what 'split in transit' means for a stream socket); after the
    last chunk it returns b'' if the peer closed and otherwise blocks."""

    def __init__(self, chunks: List[bytes], closed: bool):
        self.chunks = [bytes(c) for c in chunks if len(c)]
        self.closed = closed
        self.after_eof = 0
        self.sent = b''
        self.send_limit = 0

    def recv(self, n: int, *a) -> bytes:
        if self.chunks:
            c = self.chunks[0]
            out, rest = c[:n], c[n:]
            if rest:
                self.chunks[0] = rest
            else:
                self.chunks.pop(0)
            return out
        if not self.closed:
            raise _WouldBlock()
        self.after_eof += 1
        if self.after_eof > 4:
            raise _Spin()
        return b''

    def sendall(self, data: bytes) -> None:
        self.sent += data

    def send(self, data: bytes, *a) -> int:
        # a stream socket may take only part of the data (full buffer, slow peer)
        n = min(len(data), self.send_limit) if self.send_limit else len(data)
        self.sent += data[:n]
        return n

    def close(self) -> None:
        pass


def run_scenario(tid: str, chunks: List[List[int]], closed: bool) -> Dict[str, Any]:
    from bridge_env.network_bridge.socket_interface import MessageInterface
    sock = ScriptedSocket([bytes(c) for c in chunks], closed)
    mi = MessageInterface(sock)
    got: List[List[int]] = []
    final = 'error'
    try:
        for _ in range(64):
            m = mi.receive_message()
            got.append(list(m.encode('utf-8')))
    except _WouldBlock:
        final = 'blocked'
    except _Spin:
        final = 'spin'
    except Exception:  # noqa
        final = 'error'
    return {'tid': tid, 'ev': 'frame', 'chunks': [list(c) for c in chunks],
            'closed': closed, 'got': got, 'final': final,
            'after_eof': max(0, sock.after_eof - 1)}


def _scen_job(job):
    return [run_scenario(t, c, cl) for (t, c, cl) in job]


def send_events(r, n: int) -> List[Dict[str, Any]]:
    from bridge_env.network_bridge.socket_interface import MessageInterface
    evs = []
    texts = ['', 'North passes', 'Start of board', 'x' * 300,
             'Teams : N/S : "Ünïcødé" E/W : "Ελλάς"', 'West "東京" seated']
    for _ in range(n):
        texts.append(''.join(chr(r.randrange(32, 127)) for _ in range(r.randrange(0, 60))))
    for k, t in enumerate(texts):
        sock = ScriptedSocket([], True)
        sock.send_limit = [0, 1, 7, 16, 40][k % 5]     # short writes of the transport
        MessageInterface(sock).send_message(t)
        evs.append({'tid': f'snd{k}', 'ev': 'send', 'text': list(t.encode('utf-8')),
                    'bytes': list(sock.sent)})
    return evs


def framing_cfg(payload, maxmsgs, maxlen, eof_raises=True, invs=(), props=(), read='byte'):
    return tlc.cfg_text(specification='Spec',
                        constants={'Payload': tlc.tla_set(payload),
                                   'MaxMsgs': str(maxmsgs), 'MaxLen': str(maxlen),
                                   'EofRaises': 'TRUE' if eof_raises else 'FALSE',
                                   'ReadImpl': f'"{read}"'},
                        invariants=invs, properties=props)


INVS = ['TypeOK', 'ReceivedIsPrefix', 'PartialIsPrefix', 'AgreesWithFunction',
        'CompleteWhenOpen', 'NeverBlockedOnClosed']
PROPS = ['Terminates', 'ClosedGivesError']


def run(pid: str, tier: str) -> int:
    chk = Check(pid, tier)
    quick = tier == 'quick'
    r = rng('c19')
    chk.rule = ('a case is one framing scenario (messages, chunking, close '
                'position) run on the real receive_message, or one message '
                'built / parsed by the real code; distinct_nontrivial counts '
                'distinct scenarios with at least one byte in transit plus '
                'distinct (function, arguments) of message events')
    chk.assumptions = ['the scripted socket returns at most the requested '
                       'number of bytes and never crosses a chunk boundary; '
                       'end-of-stream is b"" as for a real socket',
                       'letter-case variants are applied to the messages the '
                       'server must parse (calls, cards, connection line); '
                       'hands, headers and team lines are parsed as built',
                       'TLC, SANY, Json community module']
    # ---- design checks ----------------------------------------------------
    configs = [([97], 2, 2)] if quick else [([97, 10], 2, 2), ([97], 3, 1)]
    for payload, mm, ml in configs:
        design_check(chk, 'Framing', framing_cfg(payload, mm, ml, True, INVS, PROPS),
                     f'Framing: payload {payload}, <= {mm} messages of <= {ml} bytes, '
                     f'every chunking, every close position',
                     constants=f'Payload={payload} MaxMsgs={mm} MaxLen={ml} EofRaises=TRUE',
                     workers=8)
    # regression configuration: the pinned reader must violate liveness
    design_check(chk, 'Framing', framing_cfg([97], 1, 1, False, [], PROPS),
                 'Framing regression (pinned reader spins at end-of-stream)',
                 constants='EofRaises=FALSE', expect_violation='Terminates', workers=2)
    # regression configuration: a reader that takes blocks and splits each block on
    # its own glues two messages when a block ends between CR and LF
    design_check(chk, 'Framing', framing_cfg([97], 2, 1, True, ['ReceivedIsPrefix'], [], read='block'),
                 'Framing regression (block reader without carry-over of the CR)',
                 constants='ReadImpl=block', expect_violation='ReceivedIsPrefix', workers=2)
    # ---- spec -> code: every scenario TLC reaches is run on the real reader
    jobs: List[tuple] = []
    for payload, mm, ml in configs:
        res = tlc.run_tlc('Framing', framing_cfg(payload, mm, ml, True, ['Export']),
                          workers=1, name='framing-export', timeout=3000, long_run=True)
        tlc.require_clean(res, 'framing export')
        if res.violated:
            raise MachineryError(res.error_text[:2000])
        chk.add_tlc(res, f'export of all terminal scenarios, payload {payload}')
        for j in res.json_lines:
            jobs.append((f'x{len(jobs)}', j['chunks'], j['closed'], j['got'], j['final']))
    # seeded scenarios beyond the bound: realistic protocol lines
    lines = [b'North ready for teams', b'Teams : N/S : "a" E/W : "b"', b'', b'East plays 2C',
             b'Board number 12. Dealer North. Neither vulnerable.', b'x\ny', b'End of session',
             # team names are free text: several bytes per character on the wire
             'Connecting "Équipe Zürich" as North using protocol version 18'.encode('utf-8'),
             'Teams : N/S : "東京" E/W : "Łódź"'.encode('utf-8'),
             'South "команда" seated'.encode('utf-8')]
    # the protocol puts no bound on the length of a line (team names are free
    # text): lines around the sizes a reader may use for its buffers
    long_lines = [b'Teams : N/S : "' + b'n' * 120 + b'" E/W : "' + b'e' * 130 + b'"',
                  b'Connecting "' + b't' * 230 + b'" as West using protocol version 18',
                  b'a' * 254, b'b' * 255, b'c' * 256, b'd' * 257, b'e' * 1023, b'f' * 1024,
                  b'g' * 4094, b'h' * 4095, b'i' * 4096, b'j' * 4097, b'k' * 8192, b'l' * 9000]
    extra = []
    for _ in range(300 if quick else 20000):
        ms = [r.choice(lines) for _ in range(r.randrange(0, 5))]
        if _ % 8 == 3:
            ms.insert(r.randrange(len(ms) + 1), long_lines[(_ // 8) % len(long_lines)])
        stream = b''.join(m + b'\r\n' for m in ms)
        closed = r.random() < 0.7
        t = r.randrange(0, len(stream) + 1) if closed else len(stream)
        s = stream[:t]
        cuts = sorted(set(r.randrange(1, len(s)) for _ in range(r.randrange(0, 8)))) if len(s) > 1 else []
        # favour cuts between CR and LF
        crs = [k + 1 for k in range(len(s) - 1) if s[k] == 13]
        if crs and r.random() < 0.7:
            cuts = sorted(set(cuts + r.sample(crs, min(len(crs), 2))))
        chunks, a = [], 0
        for c in cuts + [len(s)]:
            if c > a:
                chunks.append(list(s[a:c]))
                a = c
        extra.append((f'y{len(extra)}', chunks, closed))
    todo = [(t, c, cl) for (t, c, cl, _, _) in jobs] + extra
    per = 400
    events: List[Dict[str, Any]] = []
    for evs in pmap(_scen_job, [todo[a:a + per] for a in range(0, len(todo), per)]):
        events.extend(evs)
    # direct comparison with the behaviour TLC exported (spec -> code)
    for (t, c, cl, got, final), e in zip(jobs, events):
        chk.evaluations += 1
        if sum(len(x) for x in c):
            chk.distinct.add(hash(('f', str(c), cl)))
        if e['got'] != got or e['final'] != final:
            chk.violation(f'framing:replay:final={e["final"]}:expected={final}',
                          f'real receive_message on chunks {c} closed={cl}: returned '
                          f'{e["got"]} then {e["final"]}; the specification gives {got} then {final}',
                          {'kind': 'framing-scenario', 'chunks': c, 'closed': cl,
                           'expected': {'got': got, 'final': final}, 'observed': e})
    for e in events[len(jobs):]:
        chk.evaluations += 1
        chk.distinct.add(hash(('f', str(e['chunks']), e['closed'])))
    chk.sample(events[len(events) // 3])
    chk.sample(events[-1])
    frame_events = events + send_events(r, 50 if quick else 1000)
    rejects = validate_traces(chk, 'FramingTrace', frame_events,
                              'real receive_message / send_message vs Framing!ReadAll')
    report_rejects(chk, rejects, 'framing', key_of=lambda x: f'framing:{x.clause}')
    # ---- messages ----------------------------------------------------------
    mev = c19_message_events(tier, r)
    for e in mev:
        chk.count(hash(tuple((k, str(v)) for k, v in e.items()
                             if k not in ('tid', 'raised', 'msg') and not k.startswith('out'))))
    chk.sample(mev[10])
    chk.sample(mev[len(mev) // 2])
    chk.extra['frame_events'] = len(frame_events)
    chk.extra['message_events'] = len(mev)
    rejects = validate_traces(chk, 'NotationTrace', mev,
                              'real message builders / parsers vs Notation.tla')
    report_rejects(chk, rejects, 'message',
                   key_of=lambda x: f'message:{x.clause}:' + ','.join(
                       f'{k}={x.event[k]}' for k in ('seat', 'call', 'card', 'variant', 'alert',
                                                     'notation', 'n', 'dealer', 'vul', 'ns')
                       if k in x.event)[:160])
    # ---- the messages in their place: short sessions of the real table manager
    # with four real clients (board ids that are not numbers, numbers other than
    # the board's position, long team names): every line one end builds there
    # must be understood by the other end
    from . import table as tb
    import re as _re
    sjobs = []
    for k in range(6 if quick else 60):
        boards = tb.rand_boards(r, 1 + k % 2)
        ids = (['test1', '12', 'x.y', '0012', 'Board number 3', '7'][k % 6], 'b-2')
        boards = [(dl, d, v, ids[j], dda) for j, (dl, d, v, _i, dda) in enumerate(boards)]
        cfg = {'boards': boards, 'seed': r.randrange(1 << 30),
               'styles': [{'auction': 'short' if k % 2 else 'weak',
                           'passout_boards': {1} if k % 3 == 0 else set(),
                           'ppass': 0.5, 'play': 'legal'}] * 4,
               'vary': k % 2 == 0, 'policy_spec': tb.POLICIES[k % len(tb.POLICIES)],
               'teams': ('N' * 130, 'E' * 140) if k % 3 == 1 else ('Alpha', 'Beta b')}
        sjobs.append((f'c19s{k}', cfg, 'normal', None))
    sevents = pmap(tb.run_job, sjobs)
    chk.extra['sessions'] = len(sevents)
    for e in sevents:
        chk.count(('session', e['tid']))
    srej = validate_traces(chk, 'TableTrace', sevents,
                           'sessions: what one end builds the other end understands', heap='4g')
    for x in srej:
        body = x.clause.split(':fail=', 1)[-1]
        mine = [c for c in body.split(',')
                if c.startswith(('clients-complete', 'client-stream', 'stream-', 'complete-'))]
        if mine:
            chk.violation('message:session:' + _re.sub(r'@\d+', '', ','.join(mine))[:160],
                          f'session {x.tid} (board ids {[b["id"] for b in x.event["boards"]]}): clause '
                          f'"{x.clause}"; clients {x.event["info"]["client_exc"]}, main '
                          f'{x.event["info"]["main_exc"]}',
                          {'kind': 'rejected-session', 'clause': x.clause, 'event': x.event})
    return chk.finish()
