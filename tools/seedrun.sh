#!/bin/bash
# usage: tools/seedrun.sh <patch.diff> <property>...
# Applies a seeded change to a scratch copy of /repo (outside /repo and
# /verif), runs the checks against it via VERIF_REPO and removes the copy.
set -u
patch=$1; shift
d=$(mktemp -d /tmp/seedXXXXXX)
rsync -a --exclude .git --exclude '*.egg-info' --exclude _seed /repo/ $d/
( cd $d && git init -q . 2>/dev/null && git apply --whitespace=nowarn "$patch" ) || { echo "PATCH DOES NOT APPLY"; rm -rf $d; exit 2; }
for p in "$@"; do
  out=$(VERIF_REPO=$d VERIF_EVIDENCE_DIR=$d/ev /verif/bin/check $p --tier ${TIER:-quick} 2>&1); rc=$?
  echo "== $p rc=$rc"; echo "$out" | grep -E "VIOLATION|KNOWN|MACHINERY|Traceback" | head -4
  echo "$out" | grep -A1 "VIOLATION" | grep -v VIOLATION | head -2 | cut -c1-300
done
rm -rf $d
