#!/usr/bin/env python3
"""Runs the quick check of its property against every seeded change (in a
scratch copy of /repo, never in /repo itself) and records the outcome in
seeded/<id>/meta.json and seeded/RESULTS.md.
usage: tools/seedmatrix.py [id ...]      extra: ID:PROP runs another property's check"""
import json, os, re, subprocess, sys, time
from pathlib import Path
V = Path(__file__).resolve().parent.parent
ids = sys.argv[1:] or sorted(p.name for p in (V / 'seeded').iterdir() if (p / 'meta.json').exists())
rows = []
for item in ids:
    sid, _, prop = item.partition(':')
    meta_p = V / 'seeded' / sid / 'meta.json'
    meta = json.loads(meta_p.read_text())
    prop = prop or meta['property']
    t0 = time.time()
    p = subprocess.run([str(V / 'tools' / 'seedrun.sh'), str(V / 'seeded' / sid / 'patch.diff'), prop],
                       stdout=subprocess.PIPE, stderr=subprocess.STDOUT, text=True)
    out = p.stdout
    m = re.search(r'== (\S+) rc=(\d+)', out)
    rc = int(m.group(2)) if m else -1
    keys = re.findall(r'^  (\S+?): ', out, re.M)
    meta.setdefault('detected_by', {})[prop] = {
        'tier': os.environ.get('TIER', 'quick'), 'exit': rc, 'detected': rc == 1,
        'first_clause': keys[0][:200] if keys else None, 'wall_s': round(time.time() - t0, 1)}
    meta_p.write_text(json.dumps(meta, indent=1))
    rows.append((sid, prop, rc, keys[0][:100] if keys else ''))
    print(sid, prop, rc, keys[0][:100] if keys else '', flush=True)
lines = ['| seeded change | check | exit | first clause |', '|---|---|---|---|']
res = V / 'seeded' / 'RESULTS.md'
old = {}
if res.exists():
    for l in res.read_text().splitlines()[2:]:
        c = [x.strip() for x in l.strip('|').split('|')]
        if len(c) == 4:
            old[(c[0], c[1])] = c
for sid, prop, rc, k in rows:
    old[(sid, prop)] = [sid, prop, str(rc), k.replace('|', '/')]
for key in sorted(old):
    lines.append('| ' + ' | '.join(old[key]) + ' |')
res.write_text('\n'.join(lines) + '\n')
