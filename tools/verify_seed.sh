#!/bin/bash
# usage: tools/verify_seed.sh <patch.diff> <demo.py>
# Confirms a seeded change in a scratch copy of /repo: clean tree -> demo
# passes; with the patch -> repository tests pass and demo fails.
set -u
patch=$1; demo=$2
d=$(mktemp -d /tmp/vseedXXXXXX)
rsync -a --exclude .git --exclude '*.egg-info' --exclude _seed /repo/ $d/
cd $d && git init -q . 2>/dev/null
cp "$demo" $d/_demo.py
PYTHONPATH=$d timeout 900 /venv/bin/python _demo.py >/dev/null 2>&1; clean=$?
git apply --whitespace=nowarn "$patch" || { echo "RESULT patch-does-not-apply"; cd /; rm -rf $d; exit 2; }
tests=$(PYTHONPATH=$d timeout 900 /venv/bin/python -m pytest -q -p no:cacheprovider --timeout=900 -x 2>&1 | tail -1)
PYTHONPATH=$d timeout 900 /venv/bin/python _demo.py >/dev/null 2>&1; mut=$?
echo "RESULT clean_demo_rc=$clean mutated_demo_rc=$mut tests='$tests'"
cd /; rm -rf $d
