#!/usr/bin/env python3
"""tools/intake.py <round> <worktree> <property>: confirms the seeded changes a
sub-agent left in <worktree>/_seed/m*/ (tools/verify_seed.sh, in a scratch copy)
and stores the confirmed ones as seeded/<property>-r<round>m<N>/."""
import json, re, shutil, subprocess, sys
from pathlib import Path
V = Path(__file__).resolve().parent.parent
rnd, wt, pid = sys.argv[1], Path(sys.argv[2]), sys.argv[3]
for m in sorted((wt / '_seed').glob('m*')):
    patch, demo, notes = m / 'patch.diff', m / 'demo.py', m / 'notes.md'
    if not (patch.exists() and demo.exists()):
        print(pid, m.name, 'incomplete delivery'); continue
    out = subprocess.run([str(V / 'tools' / 'verify_seed.sh'), str(patch), str(demo)],
                         stdout=subprocess.PIPE, stderr=subprocess.STDOUT, text=True).stdout
    mm = re.search(r"RESULT clean_demo_rc=(\d+) mutated_demo_rc=(\d+) tests='(.*)'", out)
    ok = bool(mm) and mm.group(1) == '0' and mm.group(2) != '0' and ' passed' in mm.group(3) and 'failed' not in mm.group(3)
    print(pid, m.name, 'CONFIRMED' if ok else 'NOT CONFIRMED', out.strip().splitlines()[-1])
    if not ok:
        continue
    sid = f'{pid}-r{rnd}{m.name}'
    d = V / 'seeded' / sid
    d.mkdir(exist_ok=True)
    for f in (patch, demo, notes):
        if f.exists():
            shutil.copy(f, d / f.name)
    first = notes.read_text().splitlines()[0] if notes.exists() else sid
    (d / 'meta.json').write_text(json.dumps({
        'id': sid, 'property': pid, 'round': int(rnd),
        'origin': 'written by an independent sub-agent given only the property text, a scratch worktree and the '
                  'one-line descriptions of the changes of earlier rounds to avoid',
        'needs_to_manifest': first,
        'confirmed': {'how': 'tools/verify_seed.sh in a scratch copy of /repo (outside /repo and /verif), removed afterwards',
                      'clean_tree_demo_exit': int(mm.group(1)), 'patched_demo_exit': int(mm.group(2)),
                      'patched_repo_tests': mm.group(3)}}, indent=1))
