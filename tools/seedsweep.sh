#!/bin/bash
# usage: tools/seedsweep.sh <seed> [property ...]
# Soundness sweep: runs the quick checks on the UNCHANGED tree with another
# VERIF_SEED (other samples, other schedules).  Any exit code other than 0 is
# a false alarm or a machinery failure of the framework and must be looked at.
# Evidence goes to a scratch directory, not to /verif/evidence.
set -u
seed=$1; shift
props=${*:-C01 C02 C03 C04 C05 C06 C07 C08 C09 C10 C11 C12 C13 C14 C15 C16 C17 C18 C19 C20}
ev=$(mktemp -d /tmp/sweepXXXXXX)
for p in $props; do
  s=$(date +%s)
  out=$(VERIF_SEED=$seed VERIF_EVIDENCE_DIR=$ev /verif/bin/check $p --tier quick 2>&1); rc=$?
  echo "seed=$seed $p rc=$rc $(( $(date +%s) - s ))s"
  [ $rc -ne 0 ] && echo "$out" | grep -E "VIOLATION|MACHINERY|Traceback" -A1 | head -6 | cut -c1-400
done
rm -rf $ev
