#!/bin/bash
# usage: tools/thoroughsweep.sh [property ...]
# Runs the THOROUGH tier of the checks on the unchanged tree from the current
# directory's bin/check (evidence to a scratch directory): any exit code other
# than 0 is a false alarm or a machinery failure and must be looked at.
set -u
props=${*:-C12 C18 C17 C19 C16 C15 C14 C07 C04 C01 C02 C03 C05 C06 C11 C13 C20 C08 C10 C09}
here=$(cd "$(dirname "$0")/.." && pwd)
[ -d $here/.pydeps ] || $here/bin/setup >/dev/null 2>&1
ev=$(mktemp -d /tmp/thsweepXXXXXX)
for p in $props; do
  s=$(date +%s)
  out=$(VERIF_EVIDENCE_DIR=$ev $here/bin/check $p --tier thorough 2>&1); rc=$?
  echo "thorough $p rc=$rc $(( $(date +%s) - s ))s"
  [ $rc -ne 0 ] && echo "$out" | grep -E "VIOLATION|MACHINERY|Traceback" -A2 | head -12 | cut -c1-600
done
rm -rf $ev
