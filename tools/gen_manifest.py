#!/usr/bin/env python3
"""Regenerates MANIFEST.json from the table below (single source of truth)."""
import json
from pathlib import Path

VERIF = Path(__file__).resolve().parent.parent

TRUST = ('TLC/SANY and the Json/IOUtils community modules; the harness '
         'projection functions; ')

# what rounds 3-5 of the seeded changes added to the drivers (DESIGN.md 10)
EXTRA = {
    'lib': ' Also driven: two callers at once (line-level preemption by code location), the same calls in a '
           '`python -O` interpreter where applicable, and objects continued on / forked to deep copies and pickle '
           'round trips. Since rounds 8-9 part of the cases runs in another environment: DEBUG logging on, other hash '
           'seeds, calls taken without looking at the object in between, hands as lists, derived contracts, integers '
           'of other types.',
    'table': ' Sessions also run in a `python -O` interpreter, with a second table alive in the same process, with '
             'refused connection requests on the way, with the process ending when Server.run returns (command-line '
             'use) and with the log snapshot whenever "End of session" is sent. Since round 8: the transport cuts '
             'messages into segments (also between CR and LF), a put by a second producer of a queue is a scheduling '
             'point, DEBUG logging on, other hash seeds.',
}

CHECKS = {
    'C01': dict(
        category='model_checking',
        text='TLC proves the code-shaped Auction model equal to the law-shaped AuctionLaw oracle on every '
             'history (to its natural end) of a reduced bid ladder; the model is bound to the real BiddingPhase '
             'by offering all 38 calls in every state of the full-size quotient model (TLC-exported canonical '
             'histories), by TLC-simulated and seeded full-size auctions with every illegal call offered at '
             'every prefix, by pairs of auctions alive at the same time and by the repository\'s own tests run under a '
             'recording plugin, all validated event by event by the AuctionTrace specification.',
        design_ref='DESIGN.md 3 C01',
        note=TRUST + 'the quotient walk assumes the object is a function of its fields.',
        technique='TLA+ model checking (TLC) + trace validation of the real BiddingPhase against Auction!Step'),
    'C02': dict(
        category='model_checking',
        text='Same models as C01 with the turn/termination clauses (TurnIsLaw, PerSeatIsShare, NeverLater, '
             'AfterEndRefused, FinishedIffEnded); every replay offers all 38 calls again after the end.',
        design_ref='DESIGN.md 3 C02',
        note=TRUST + 'as C01.',
        technique='TLA+ model checking (TLC) + trace validation of the real BiddingPhase against Auction!Step'),
    'C03': dict(
        category='model_checking',
        text='ContractIsLaw / NoContractBeforeEnd on every complete history of reduced ladders; binding through '
             'the quotient that keeps the first-to-name table in the view and contract() compared after every step.',
        design_ref='DESIGN.md 3 C03',
        note=TRUST + 'as C01.',
        technique='TLA+ model checking (TLC) + trace validation of the real BiddingPhase against Auction!Step'),
    'C04': dict(
        category='model_checking',
        text='TLC proves the code-shaped Play model (strict-< scan over trumps then over the suit led, leader advanced by '
             'index, bookkeeping in the code\'s order) equal to the law-shaped PlayLaw oracle in every reachable state of '
             'reduced packs (every deal, trump, declarer and play order, revokes included) and on the complete winner table '
             'of a 16-card pack; the real PlayingPhase classes are bound by TLC-generated behaviours (reduced packs '
             'exhaustively, 52-card boards by simulation), seeded boards and the winner table, every call validated by '
             'PlayTrace with the full projected state.',
        design_ref='DESIGN.md 3 C04',
        note=TRUST + 'the private list of the current trick is not read (checked through its effects).',
        technique='TLA+ model checking (TLC) + trace validation of the real PlayingPhase classes against Play!PStep / PlayLaw'),
    'C05': dict(
        category='model_checking',
        text='HandsAreLaw / Conservation / AcceptedIffLaw (every seat x card offered in every state) on the reduced-pack '
             'models; on the real objects out-of-turn plays, cards of another seat and cards already played are injected at '
             'every position of full boards, and TLC rejects any accepted-but-illegal play and any refused play that '
             'changed the projected state. Hands objects that were re-dealt (seat attributes assigned) are played on too; '
             'a table half runs real sessions with an offence in the play under the baton: the refused card is not passed '
             'on to the other seats (TableTrace).',
        design_ref='DESIGN.md 3 C05',
        note=TRUST + 'as C04.',
        technique='TLA+ model checking (TLC) + trace validation with injected refused plays'),
    'C06': dict(
        category='model_checking',
        text='PlayableIsLaw in every reachable state of the reduced-pack models and for all hands x leads of a 12-card '
             'pack (spec); the real available_cards / current_available_cards* / RandomPlay are called on the same table, on '
             'full-size hands of every size x every led card and in every state of the driven boards, and TLC validates '
             'each answer against LawPlayable. A table half runs real sessions (passed-out boards in every position) and '
             'validates, at every decision, the set the bundled client offered to its playing system (OfferClauses of '
             'TableTrace); one RandomPlay object serving two tables at once is explored by line-level preemption.',
        design_ref='DESIGN.md 3 C06',
        note=TRUST + 'RandomPlay is sampled (seeded), not enumerated.',
        technique='TLA+ model checking (TLC) + trace validation of the playable-set queries'),
    'C07': dict(
        category='model_checking',
        text='Score!Duplicate is written from Law 77 by formula; TLC checks sanity laws on the complete domain; the real '
             'calc_score and calc_bid_score are evaluated on the COMPLETE finite domain (35 x 4 flag combinations x 4 '
             'vulnerabilities x 4 declarers x 14, plus passed-out contracts), in two orders in one process, and TLC '
             'validates every value.',
        design_ref='DESIGN.md 3 C07',
        note=TRUST + 'the oracle formula (anchored by 16 well-known scores).',
        technique='TLA+ oracle (TLC) + complete-domain trace validation of calc_score'),
    'C11': dict(
        category='model_checking',
        text='In process: product of one manager and four observers explored by TLC on reduced packs (ReplicasAgree, '
             'ReplicasAccept, ReplicaHands); the six real objects are driven together on TLC-generated and seeded boards '
             'and TLC validates each object against its model and their agreement after every play. Over the protocol: '
             'sessions of the real server with four bundled Clients under the baton; the lines each client sends, the '
             'contract each client derives and its ObservedPlayingPhase at the end of every board are validated by '
             'TableTrace against TableObs (ClientStream, ContractOf, FinalPlay); no client may raise.',
        design_ref='DESIGN.md 3 C11',
        note=TRUST + 'the baton for the network half.',
        technique='TLA+ model checking (TLC) of the replica product + multi-object trace validation'),
    'C16': dict(
        category='model_checking',
        text='TLAPS proves for ALL integers that the specification-level IMP function is odd, monotone, within -24..24 and '
             'saturated from 4000 up; TLC checks it equals the declarative scale on -6000..6000; the real functions are '
             'evaluated on every integer of the range where the scale varies, on wide and beyond-64-bit magnitudes and on '
             'two-score pairs around every threshold, all validated by TLC.',
        design_ref='DESIGN.md 3 C16',
        note='tlapm + SMT; TLC; beyond the enumerated range the code is sampled.',
        technique='TLAPS proof of the scale + TLC trace validation of point_difference_to_imps / score_to_imp'),
    'C12': dict(
        category='model_checking',
        text='JsonLog.tla: the streaming writer machine (every open/write^n/close sequence is a well-formed document, '
             'TLC), the content of an item as a function of the written values through Notation.tla, the published '
             'schema transcribed, and the round-trip relation. Real JsonLogWriter sessions (0..12 records, every kind of '
             'contract, 0..13 tricks, arbitrary Unicode names/ids, with/without dda, failed writes, write before open) are '
             'recorded chunk by chunk, parsed back with JsonParser (logs and board settings) and validated by '
             'JsonLogTrace; json.loads and jsonschema on the SHIPPED schema decide the two non-TLA+ clauses.',
        design_ref='DESIGN.md 3 C12',
        note=TRUST + 'json.loads; jsonschema (offline wheel, installed by bin/setup); record space sampled (seeded).',
        technique='TLA+ writer machine (TLC) + trace validation of writer chunks and parser read-back'),
    'C14': dict(
        category='model_checking',
        text='Notation.tla gives the canonical encodings (PBN deal from any first seat, 52-slot vectors, JSON lists); TLC '
             'checks the hand texts injective on all subsets of a reduced pack; every real encoder/decoder call on seeded '
             'deals (uniform, voids forced in each suit position, one-suit hands, partial deals; decode-mutate-decode '
             'sequences; numpy dtypes) is validated by NotationTrace (decoders relationally). Sampled at full size.',
        design_ref='DESIGN.md 3 C14',
        note=TRUST + 'the 5.4e28 deals are sampled; decoders are fed the text the real encoder produced (validated in the same run).',
        technique='TLA+ canonical encodings + TLC trace validation of the real encoders/decoders'),
    'C15': dict(
        category='model_checking',
        text='Complete finite domains in both tiers: TLC checks every notation table injective; every converter of Card, '
             'Bid, Player, Pair, Vul, Suit and Contract is called on every value (52x52 card comparisons, all contracts x '
             'vulnerability x declarer parsed in two nestings) and each result is validated against Notation.tla.',
        design_ref='DESIGN.md 3 C15',
        note=TRUST + 'none beyond the tables of Notation.tla.',
        technique='TLA+ tables (TLC injectivity) + complete-domain trace validation of the converters'),
    'C17': dict(
        category='model_checking',
        text='JSON half as C12 with JsonBoardSettingWriter. PBN half: Pbn.tla generates every import layout up to the '
             'bound (tag orders, extra tags/table rows/duplicates, header lines, blank-line runs before/between/after) and '
             'TLC checks the abstract parser returns the games written; every layout is rendered with seeded boards '
             '(any first seat, any accepted vulnerability spelling, ids from the stated alphabet incl. runs of spaces, '
             'LF/CRLF, semi-empty lines, StringIO and real files) and parsed by the real PbnParser; seeded layouts beyond '
             'the bound are validated by PbnTrace.',
        design_ref='DESIGN.md 3 C17',
        note=TRUST + 'PBN comments (; and {}) are not generated.',
        technique='TLA+ layout generation (TLC) replayed on the real parser + trace validation'),
    'C18': dict(
        category='model_checking',
        text='Pbn.tla composes the writer (15 tags + separator) with the parser (TLC: n results read back as n games); '
             'real PbnWriter output for sequences of 1..5 results (every contract, repeated board numbers, names from the '
             'stated alphabet) is validated line by line against Notation.tla, every line <= 255, and the real parser '
             'read-back (parse_all and parse_board_settings) against what was written.',
        design_ref='DESIGN.md 3 C18',
        note=TRUST + 'sequences are seeded samples.',
        technique='TLA+ writer/parser composition (TLC) + trace validation of PbnWriter lines and read-back'),
    'C19': dict(
        category='model_checking',
        text='Framing.tla: byte-at-a-time reader, every chunking and every close position, safety (prefix, intact, in '
             'order) and liveness (after close the reader reaches error; regression config shows the pinned spin); every '
             'terminal scenario TLC reaches is replayed on the real receive_message with a scripted socket (spin detection '
             'without time-outs). Messages: all 38 calls x 4 seats x case variants x alert suffixes, 52 cards x 4 seats x 2 '
             'notations x case variants, hands 0..13, headers as Server.deal queues them, team and connection lines, all '
             'validated against Notation.tla.',
        design_ref='DESIGN.md 3 C19',
        note=TRUST + 'scripted socket semantics; case variants applied to client-to-server messages only.',
        technique='TLA+ model checking incl. liveness (TLC) + replay of all scenarios and trace validation'),
    'C08': dict(
        category='model_checking',
        text='TableObs.tla gives the sequential meaning of a session (log records from Auction!Step, Play!PStep, '
             'Score, Notation); Table.tla (PlusCal, one label per scheduling point of server.py) is checked by TLC to '
             'write exactly those records under every interleaving of the main thread and the seat threads; real '
             'sessions of the unmodified Server with four real Clients run under a deterministic scheduler (the '
             'baton) with seeded decisions (any legal auction, legal and revoking play, both card notations, letter '
             'case, alerts, passed-out boards in every position, 1-3 boards) under several schedule policies, and '
             'TableTrace validates the parsed output file field by field against TableObs.',
        design_ref='DESIGN.md 3 C08',
        note=TRUST + 'the baton (controlled Event/Barrier/Queue/socket/time; put/send are not scheduling points); sessions are seeded samples.',
        technique='TLA+ model checking of the concurrent table manager (TLC) + trace validation of real sessions run under a controlled scheduler'),
    'C09': dict(
        category='model_checking',
        text='Table.tla with CPython Event/Barrier/Queue semantics: TLC checks absence of deadlock and termination under '
             'weak fairness over ALL interleavings of main + 4 seat threads (reduced boards), and that the pinned '
             'flag-barrier configuration deadlocks (regression). The real server is explored directly under the baton: '
             'one thread stalled from each of many of its scheduling points for as long as any other thread can move, '
             'seeded random / uniform schedules, 1-2 boards, passed-out and played; deadlock detection is exact (no '
             'enabled thread), every session must end with all threads finished, End of session on all four '
             'connections and a closed, parseable log (validated by TableTrace). Binding of the synchronisation skeleton: '
             'the block sequence of real sessions is validated against the labels of Table.tla (TableSkelTrace, with negative '
             'controls), TLC behaviours are replayed as schedules, the controlled primitives are self-checked against '
             'CPython, and an inductive invariant of the reusable barrier is discharged by Apalache for any number of '
             'generations.',
        design_ref='DESIGN.md 3 C09',
        note=TRUST + 'baton semantics as specified in PyThreading/Table; schedules are sampled on the real code, exhaustive on the model.',
        technique='TLA+ model checking incl. liveness (TLC, Apalache inductive invariant) + skeleton trace validation and systematic schedule exploration of the real server'),
    'C10': dict(
        category='model_checking',
        text='TLC: in Table.tla the lines sent on every connection are always a prefix of, and finally equal to, '
             'TableObs!ExpectedStream under every interleaving. Real sessions: the COMPLETE byte stream of each of the four '
             'connections (both directions) is compared line by line by TableTrace with TableObs!ServerStream built from '
             'the configuration and the decisions (own 13 cards only, dummy after the opening lead, relays exactly once '
             'to every other connection, lead prompts, board header).',
        design_ref='DESIGN.md 3 C10',
        note=TRUST + 'as C08.',
        technique='TLA+ model checking (TLC) + trace validation of the complete per-connection streams'),
    'C13': dict(
        category='model_checking',
        text='Table.tla with Fault / Interrupts: TLC checks AbortLog (main stopped => log closed and equal to the boards '
             'finished before) for offences in auction and play and for an operator interrupt at any queue read; the '
             'CloseOnAbort=FALSE regression violates it. Real server: fault enumeration under the baton - illegal call, '
             'unparseable text, wrong seat name, card not held (own or dummy\'s), garbage card, KeyboardInterrupt at a '
             'scheduling point of main inside board k of n - the output file is then parsed and validated by TableTrace.',
        design_ref='DESIGN.md 3 C13',
        note=TRUST + 'interrupts inside the log writer (between its two writes) are not enumerated.',
        technique='TLA+ model checking with fault actions (TLC) + fault enumeration on the real server under the controlled scheduler'),
    'C20': dict(
        category='model_checking',
        text='Table.tla admission: arrival orders of 6-8 requests (valid, wrong version, seat taken, partner team '
             'mismatch), every interleaving: table only grows, refused requests get exactly one error and a close, '
             'seating as the sequential specification says, Teams line and first board follow; termination. Real '
             'server: seeded arrival orders with raw requesters for the refused requests and real Clients for the '
             'accepted ones; every connection\'s stream validated by TableTrace against TableObs!Verdict.',
        design_ref='DESIGN.md 3 C20',
        note=TRUST + 'requests arriving after the table is full are outside the statement.',
        technique='TLA+ model checking (TLC) + trace validation of admission sessions of the real server'),
}

NOT_YET = {}


def main():
    props = [json.loads(l)['id'] for l in open(VERIF / 'properties.jsonl')]
    checks = []
    for pid in props:
        if pid not in CHECKS:
            continue
        c = CHECKS[pid]
        checks.append({
            'property_id': pid,
            'quick_cmd': f'bin/check {pid} --tier quick',
            'thorough_cmd': f'bin/check {pid} --tier thorough',
            'evidence_file': f'evidence/{pid}.json',
            'replay_cmd_template': f'bin/check {pid} --replay {{path}}',
            'engine': 'tlc',
            'level_claimed': {'category': c['category'],
                              'text': c['text'] + (EXTRA['lib'] if pid in ('C01', 'C02', 'C03', 'C04', 'C05', 'C06',
                                                                           'C07', 'C14', 'C15', 'C16')
                                                   else EXTRA['table'] if pid in ('C08', 'C09', 'C10', 'C11')
                                                   else ''),
                              'design_ref': c['design_ref']},
            'level_note': c['note'],
            'technique': c['technique'],
        })
    na = [{'property_id': p,
           'reason': NOT_YET.get(p, 'check under construction in this session; not yet claimed')}
          for p in props if p not in CHECKS]
    m = {
        'version': 1,
        'setup_cmd': 'bin/setup',
        'hooks': {'guard': 'BRIDGE_ENV_VERIF',
                  'enable': 'no source hooks: the harness wraps module globals of bridge_env from outside '
                            '(BRIDGE_ENV_VERIF=1 is exported by bin/check for documentation only)',
                  'baseline_off_cmd': 'cd /repo && /venv/bin/python -m pytest -q -p no:cacheprovider --timeout=900',
                  'source_commits': [],
                  'add_only': True},
        'engines': [{'name': 'tlc', 'path': 'harness/tlc.py',
                     'serves_properties': sorted(CHECKS),
                     'kind_free_text': 'TLA+ specifications in spec/ checked with TLC; behaviours exported to '
                                       'and traces imported from the real Python code by harness/'}],
        'checks': checks,
        'not_applicable': na,
        'notes': 'See DESIGN.md. known_findings.json lists fixed and open findings.',
    }
    (VERIF / 'MANIFEST.json').write_text(json.dumps(m, indent=1) + '\n')


if __name__ == '__main__':
    main()
