#!/usr/bin/env python3
"""Regenerates MANIFEST.json from the table below (single source of truth)."""
import json
from pathlib import Path

VERIF = Path(__file__).resolve().parent.parent

TRUST = ('TLC/SANY and the Json/IOUtils community modules; the harness '
         'projection functions; ')

CHECKS = {
    'C01': dict(
        category='model_checking',
        text='TLC proves the code-shaped Auction model equal to the law-shaped AuctionLaw oracle on every '
             'history (to its natural end) of a reduced bid ladder; the model is bound to the real BiddingPhase '
             'by offering all 38 calls in every state of the full-size quotient model (TLC-exported canonical '
             'histories), by TLC-simulated and seeded full-size auctions with every illegal call offered at '
             'every prefix, all validated event by event by the AuctionTrace specification.',
        design_ref='DESIGN.md 3 C01',
        note=TRUST + 'the quotient walk assumes the object is a function of its fields.',
        technique='TLA+ model checking (TLC) + trace validation of the real BiddingPhase against Auction!Step'),
    'C02': dict(
        category='model_checking',
        text='Same models as C01 with the turn/termination clauses (TurnIsLaw, PerSeatIsShare, NeverLater, '
             'AfterEndRefused, FinishedIffEnded); every replay offers all 38 calls again after the end.',
        design_ref='DESIGN.md 3 C02',
        note=TRUST + 'as C01.',
        technique='TLA+ model checking (TLC) + trace validation of the real BiddingPhase against Auction!Step'),
    'C03': dict(
        category='model_checking',
        text='ContractIsLaw / NoContractBeforeEnd on every complete history of reduced ladders; binding through '
             'the quotient that keeps the first-to-name table in the view and contract() compared after every step.',
        design_ref='DESIGN.md 3 C03',
        note=TRUST + 'as C01.',
        technique='TLA+ model checking (TLC) + trace validation of the real BiddingPhase against Auction!Step'),
}

NOT_YET = {}


def main():
    props = [json.loads(l)['id'] for l in open(VERIF / 'properties.jsonl')]
    checks = []
    for pid in props:
        if pid not in CHECKS:
            continue
        c = CHECKS[pid]
        checks.append({
            'property_id': pid,
            'quick_cmd': f'bin/check {pid} --tier quick',
            'thorough_cmd': f'bin/check {pid} --tier thorough',
            'evidence_file': f'evidence/{pid}.json',
            'replay_cmd_template': f'bin/check {pid} --replay {{path}}',
            'engine': 'tlc',
            'level_claimed': {'category': c['category'], 'text': c['text'],
                              'design_ref': c['design_ref']},
            'level_note': c['note'],
            'technique': c['technique'],
        })
    na = [{'property_id': p,
           'reason': NOT_YET.get(p, 'check under construction in this session; not yet claimed')}
          for p in props if p not in CHECKS]
    m = {
        'version': 1,
        'setup_cmd': 'bin/setup',
        'hooks': {'guard': 'BRIDGE_ENV_VERIF',
                  'enable': 'no source hooks: the harness wraps module globals of bridge_env from outside '
                            '(BRIDGE_ENV_VERIF=1 is exported by bin/check for documentation only)',
                  'baseline_off_cmd': 'cd /repo && /venv/bin/python -m pytest -q -p no:cacheprovider --timeout=900',
                  'source_commits': [],
                  'add_only': True},
        'engines': [{'name': 'tlc', 'path': 'harness/tlc.py',
                     'serves_properties': sorted(CHECKS),
                     'kind_free_text': 'TLA+ specifications in spec/ checked with TLC; behaviours exported to '
                                       'and traces imported from the real Python code by harness/'}],
        'checks': checks,
        'not_applicable': na,
        'notes': 'See DESIGN.md. known_findings.json lists fixed and open findings.',
    }
    (VERIF / 'MANIFEST.json').write_text(json.dumps(m, indent=1) + '\n')


if __name__ == '__main__':
    main()
