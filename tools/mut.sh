#!/bin/bash
# usage: tools/mut.sh '<file relative to repo>' '<python-expr old>' '<new>' <property>...
# Applies a textual mutation to a scratch copy of /repo (outside /repo and
# /verif), runs the quick checks against it via VERIF_REPO and removes it.
set -u
file=$1; old=$2; new=$3; shift 3
d=$(mktemp -d /tmp/mutXXXXXX)
rsync -a --exclude .git --exclude '*.egg-info' /repo/ $d/
python3 - "$d/$file" "$old" "$new" <<'PY'
import sys
p,old,new=sys.argv[1:4]
s=open(p).read()
assert s.count(old)>=1, 'pattern not found'
s=s.replace(old,new,1)
open(p,'w').write(s)
PY
[ $? -eq 0 ] || { rm -rf $d; exit 2; }
for p in "$@"; do
  out=$(VERIF_REPO=$d VERIF_EVIDENCE_DIR=$d/ev /verif/bin/check $p --tier ${TIER:-quick} 2>&1); rc=$?
  echo "== $p rc=$rc"; echo "$out" | grep -E "VIOLATION|KNOWN|MACHINERY|note:" | head -5
  echo "$out" | grep -A1 "VIOLATION" | grep -v VIOLATION | head -3 | cut -c1-400
done
rm -rf $d
