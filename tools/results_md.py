#!/usr/bin/env python3
"""Rebuilds seeded/RESULTS.md from the detected_by entries of every meta.json
(the matrix may have been run by several processes at once)."""
import json
from pathlib import Path
V = Path(__file__).resolve().parent.parent
rows = []
for mp in sorted((V / 'seeded').glob('*/meta.json')):
    m = json.loads(mp.read_text())
    for prop, d in sorted(m.get('detected_by', {}).items()):
        rows.append((m['id'], prop, str(d.get('exit')), (d.get('first_clause') or '').replace('|', '/')[:100]))
lines = ['| seeded change | check | exit | first clause |', '|---|---|---|---|']
lines += ['| ' + ' | '.join(r) + ' |' for r in rows]
(V / 'seeded' / 'RESULTS.md').write_text('\n'.join(lines) + '\n')
own = [r for r in rows if r[0].split('-')[0] == r[1]]
print(len(rows), 'rows;', sum(1 for r in own if r[2] == '1'), 'of', len(own), 'caught by the check of their own property')
