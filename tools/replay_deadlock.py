#!/venv/bin/python
"""Demonstration of the spec -> code binding for C09: TLC's deadlocking
behaviours of Table.tla with SyncImpl = "flags" (the pinned design) are
replayed as schedules on the server of $VERIF_REPO (default /repo).
On the pinned tree they deadlock; on the repaired tree every one completes."""
import os, sys
from pathlib import Path
V = Path(__file__).resolve().parent.parent
sys.path.insert(0, str(V))
from harness.core import Check, REPO
from harness import table
chk = Check('C09', 'quick')
scheds, board, calls = table.tlc_schedules(chk, int(sys.argv[1]) if len(sys.argv) > 1 else 30,
                                           False, sync='flags', want_deadlock=True)
print(f'{len(scheds)} deadlocking behaviours exported by TLC; replaying on {REPO}')
from harness.core import rng, seed
deal, dealer, vul = board
r = rng('replay', False)
rest = [c for c in range(52) if all(c not in h for h in deal)]
r.shuffle(rest)
full = [sorted(list(deal[s]) + rest[12 * s:12 * (s + 1)]) for s in range(4)]
out = {}
for k, sc in enumerate(scheds):
    cfg = {'boards': [(full, dealer, vul, f'tlc{k}', None)], 'seed': k,
           'styles': [{'auction': 'script', 'script': calls}] * 4, 'vary': False,
           'policy_spec': ('script', sc)}
    e = table.run_job((f'd{k}', cfg, 'normal', None))
    v = e['done']['verdict']
    out[v] = out.get(v, 0) + 1
print(out)
